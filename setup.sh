#!/bin/sh
# Build the overlay venv: /venv's python + its site-packages + /repo (editable) + crosshair from the wheelhouse.
set -e
cd "$(dirname "$0")"
if [ ! -x .venv/bin/python ] || ! .venv/bin/python -c "import crosshair, z3, numpy, automap" 2>/dev/null; then
  rm -rf .venv
  /venv/bin/python -m venv .venv
  SP=$(.venv/bin/python -c "import site; print(site.getsitepackages()[0])")
  printf '%s\n%s\n' /venv/lib/python3.12/site-packages /repo > "$SP/verif_overlay.pth"
  PIP_NO_INDEX=1 .venv/bin/pip install -q --no-index --find-links /opt/veriftools/wheels crosshair-tool z3-solver
fi
.venv/bin/python -c "import crosshair, z3, numpy, automap, static_frame; print('setup ok', crosshair.__version__, numpy.__version__, static_frame.__file__)"
