"""C15: axis reductions equal the independent per-column / per-row computation.

Real functions executed: ContainerOperand.{sum,min,max,all,any,mean,median,std,var,prod,cumsum,...}
argument plumbing, Frame._ufunc_axis_skipna, TypeBlocks.ufunc_axis_skipna (unified / axis 0 /
composable axis 1 / consolidating axis 1 / size_one_unity / dtype pre-cast), util.ufunc_axis_skipna,
_ufunc_logical_skipna, argmin_2d/argmax_2d, Frame.loc_min/iloc_min/loc_max/iloc_max.
Two tiers of meaning: EXACT over Z u {NaN} / bool for sum, min, max, all, any, cumsum, position of
min/max; PLUMBING for mean/median/std/var (uninterpreted reductions over symbolic cells: the token
produced at frame level must equal the token of the per-line application: same cells, same order,
same skipna variant, same ddof).  Every cell has a symbolic missing flag."""
from vf.cond import Cond, nan_or
from vf import layouts

CONDS = {}
ASSUMPTIONS = ['cells are unbounded symbolic ints or NaN in float64 columns; Booleans in bool columns; no IEEE rounding, no overflow']
OUTSIDE = ('floating-point values of mean/median/std/var (plumbing only); prod/cumprod over symbolic cells (non-linear); string and datetime columns; 0-sized axes; shapes beyond 2x3 (quick)')
TRACES_QUICK = 24

M = 'NaN'


def _add(c):
    CONDS[c.name] = c
    return c


def ref_reduce(name, line, skipna):
    """line: list of ints or M"""
    vals = [v for v in line if v != M]
    has_nan = len(vals) != len(line)
    if name == 'sum':
        if has_nan and not skipna:
            return M
        return sum(vals)
    if name in ('min', 'max'):
        if has_nan and not skipna:
            return M
        if not vals:
            return M
        return min(vals) if name == 'min' else max(vals)
    raise AssertionError(name)


def build(env, kw, nrows, ncols, layout, dtype='float64'):
    sf = env.sf
    from static_frame.core.type_blocks import TypeBlocks
    lib = [[nan_or(env, kw[f'n{r}{c}'], kw[f'v{r}{c}']) for c in range(ncols)] for r in range(nrows)]
    ref = [[M if kw[f'n{r}{c}'] else kw[f'v{r}{c}'] for c in range(ncols)] for r in range(nrows)]
    cols = [[lib[r][c] for r in range(nrows)] for c in range(ncols)]
    tb = TypeBlocks.from_blocks(layouts.build_blocks(env, cols, dtype, layout))
    f = sf.Frame(tb, index=[100 + r for r in range(nrows)], columns=[chr(97 + c) for c in range(ncols)])
    return f, lib, ref


def lines(ref, axis):
    nrows, ncols = len(ref), len(ref[0])
    if axis == 0:
        return [[ref[r][c] for r in range(nrows)] for c in range(ncols)]
    return [list(r) for r in ref]


def mk_exact(name, nrows, ncols, layout, axis, tier='quick', timeout=300):
    def body(env, skipna, **kw):
        f, lib, ref = build(env, kw, nrows, ncols, layout)
        r = getattr(f, name)(axis=axis, skipna=skipna)
        got = [env.obs(r.index.values.tolist()), env.obs(r.values.tolist())]
        labels = [chr(97 + c) for c in range(ncols)] if axis == 0 else [100 + r_ for r_ in range(nrows)]
        exp = [labels, [ref_reduce(name, l, skipna) for l in lines(ref, axis)]]
        return got, exp
    params = [('skipna', 'bool')] + [(f'v{r}{c}', 'int') for r in range(nrows) for c in range(ncols)] + [(f'n{r}{c}', 'bool') for r in range(nrows) for c in range(ncols)]
    return Cond(f'{name}_axis{axis}_{nrows}x{ncols}_{layouts.name(layout)}', params, body,
            functions=['TypeBlocks.ufunc_axis_skipna', 'ufunc_axis_skipna'],
            bounds=f'{nrows}x{ncols} float64 frame, layout {layout}; every cell an UNBOUNDED symbolic int or NaN; skipna symbolic; axis {axis}',
            route=f'Frame.{name}(axis={axis}, skipna): equals the per-{"column" if axis == 0 else "row"} computation, labelled by the other axis', tier=tier, timeout=timeout)


L3 = [((2, 2), (1, 1)), ((1, 1), (2, 2)), ((2, 3),), ((1, 1), (1, 1), (1, 1))]
_add(mk_exact('sum', 2, 3, L3[0], 0))
_add(mk_exact('sum', 2, 3, L3[0], 1))
_add(mk_exact('sum', 2, 3, L3[2], 1))
_add(mk_exact('min', 2, 3, L3[1], 0))
_add(mk_exact('min', 2, 3, L3[1], 1))
_add(mk_exact('max', 2, 3, L3[3], 1))
_add(mk_exact('max', 1, 3, ((2, 2), (1, 1)), 0))   # size-one blocks: size_one_unity path
for _n in ('sum', 'min', 'max'):
    for _lay in layouts.compositions(3):
        for _ax in (0, 1):
            c = mk_exact(_n, 2, 3, _lay, _ax, tier='thorough', timeout=1200)
            if c.name not in CONDS:
                _add(c)


def mk_logical(name, layout, axis, tier='quick'):
    def body(env, **kw):
        sf = env.sf
        from static_frame.core.type_blocks import TypeBlocks
        rows = [[kw[f'b{r}{c}'] for c in range(3)] for r in range(2)]
        cols = [[rows[r][c] for r in range(2)] for c in range(3)]
        tb = TypeBlocks.from_blocks(layouts.build_blocks(env, cols, 'bool', layout))
        f = sf.Frame(tb, index=[100, 101], columns=['a', 'b', 'c'])
        r = getattr(f, name)(axis=axis)
        agg = all if name == 'all' else any
        return env.obs(r.values.tolist()), [agg(l) for l in lines(rows, axis)]
    return Cond(f'{name}_axis{axis}_{layouts.name(layout)}', [(f'b{r}{c}', 'bool') for r in range(2) for c in range(3)], body,
            functions=['TypeBlocks.ufunc_axis_skipna', '_ufunc_logical_skipna'],
            bounds=f'2x3 bool frame, layout {layout}; every cell symbolic; axis {axis}',
            route=f'Frame.{name}(axis={axis})', tier=tier, timeout=200)


_add(mk_logical('all', L3[0], 0))
_add(mk_logical('all', L3[1], 1))
_add(mk_logical('any', L3[0], 1))
_add(mk_logical('any', L3[3], 0))


def mk_logical_nan(layout, tier='quick'):
    """A missing cell is rejected by the logical reductions without skipna, ignored with it."""
    def body(env, skipna, **kw):
        f, lib, ref = build(env, kw, 2, 2, layout)
        out, exp = [], []
        for name in ('all', 'any'):
            try:
                r = getattr(f, name)(axis=0, skipna=skipna)
                out.append(env.obs(r.values.tolist()))
            except TypeError:
                out.append('TypeError')
            agg = all if name == 'all' else any
            col_res = []
            rejected = False
            for l in lines(ref, 0):
                if M in l and not skipna:
                    rejected = True
                col_res.append(agg(bool(v) for v in l if v != M))
            exp.append('TypeError' if rejected else col_res)
        return out, exp
    params = [('skipna', 'bool')] + [(f'v{r}{c}', 'int') for r in range(2) for c in range(2)] + [(f'n{r}{c}', 'bool') for r in range(2) for c in range(2)]
    return Cond(f'logical_with_nan_{layouts.name(layout)}', params, body,
            functions=['_ufunc_logical_skipna'],
            bounds=f'2x2 float64 frame, layout {layout}; every cell an unbounded symbolic int or NaN; skipna symbolic',
            route='Frame.all/any(axis=0, skipna): NaN rejected (TypeError) without skipna, ignored with it', tier=tier, timeout=300)


_add(mk_logical_nan(((2, 2),)))
_add(mk_logical_nan(((1, 1), (1, 1)), tier='thorough'))


def mk_plumbing(name, layout, axis, tier='quick'):
    def body(env, skipna, **kw):
        xp = env.xp
        f, lib, ref = build(env, kw, 2, 3, layout)
        r = getattr(f, name)(axis=axis, skipna=skipna)
        fn = getattr(xp, ('nan' if skipna else '') + name)
        nrows, ncols = 2, 3
        per_line = []
        for l in (([[lib[r_][c] for r_ in range(nrows)] for c in range(ncols)]) if axis == 0 else lib):
            per_line.append(env.obs(fn(env.array(list(l), 'float64'))))
        return env.obs(r.values.tolist()), per_line
    params = [('skipna', 'bool')] + [(f'v{r}{c}', 'int') for r in range(2) for c in range(3)] + [(f'n{r}{c}', 'bool') for r in range(2) for c in range(3)]
    return Cond(f'{name}_plumbing_axis{axis}_{layouts.name(layout)}', params, body,
            functions=['TypeBlocks.ufunc_axis_skipna'],
            bounds=f'2x3 float64 frame, layout {layout}; cells unbounded symbolic ints or NaN; {name} is an UNINTERPRETED reduction (token of function, cells in order, ddof)',
            route=f'Frame.{name}(axis={axis}, skipna) == [np.{name} / np.nan{name} applied to each line independently]', tier=tier, timeout=300)


_add(mk_plumbing('mean', L3[0], 0))
_add(mk_plumbing('mean', L3[1], 1))
_add(mk_plumbing('median', L3[0], 1))
_add(mk_plumbing('std', L3[2], 0))
_add(mk_plumbing('var', L3[3], 1))


def mk_argminmax(layout, name, axis, tier='quick'):
    better = (lambda a, b: a < b) if name == 'loc_min' else (lambda a, b: a > b)

    def body(env, skipna, **kw):
        f, lib, ref = build(env, kw, 2, 3, layout)
        out, exp = [], []
        for _ in (0,):
            for _ in (0,):
                try:
                    r = getattr(f, name)(axis=axis, skipna=skipna)
                    out.append(env.obs(r.values.tolist()))
                except (RuntimeError, ValueError):
                    out.append('raises')
                labels = [100, 101] if axis == 0 else ['a', 'b', 'c']
                res = []
                bad = False
                for l in lines(ref, axis):
                    if M in l and not skipna:
                        bad = True
                        continue
                    best = None
                    for i, v in enumerate(l):
                        if v == M:
                            continue
                        if best is None or better(v, l[best]):
                            best = i
                    if best is None:
                        bad = True
                    else:
                        res.append(labels[best])
                exp.append('raises' if bad else res)
        return out, exp
    params = [('skipna', 'bool')] + [(f'v{r}{c}', 'int') for r in range(2) for c in range(3)] + [(f'n{r}{c}', 'bool') for r in range(2) for c in range(3)]
    return Cond(f'{name}_axis{axis}_{layouts.name(layout)}', params, body,
            functions=['argmin_2d' if False else '_argminmax_2d'],
            bounds=f'2x3 float64 frame, layout {layout}; cells unbounded symbolic ints or NaN; skipna symbolic',
            route='Frame.loc_min / loc_max (both axes): label of the first extreme value per line; a missing value is never silently treated as a number', tier=tier, timeout=400)


_add(mk_argminmax(L3[0], 'loc_min', 0))
_add(mk_argminmax(L3[0], 'loc_max', 1))
_add(mk_argminmax(L3[1], 'loc_min', 1, tier='thorough'))
_add(mk_argminmax(L3[1], 'loc_max', 0, tier='thorough'))


def body_cumsum(env, **kw):
    f, lib, ref = build(env, kw, 2, 3, L3[0])
    out, exp = [], []
    for axis in (0, 1):
        r = f.cumsum(axis=axis, skipna=True)
        out.append([env.obs(r.index.values.tolist()), env.obs(r.columns.values.tolist()), env.obs(r.values.tolist())])
        res = [[None] * 3 for _ in range(2)]
        for li, l in enumerate(lines(ref, axis)):
            acc = 0
            for i, v in enumerate(l):
                acc += 0 if v == M else v
                if axis == 0:
                    res[i][li] = acc
                else:
                    res[li][i] = acc
        exp.append([[100, 101], ['a', 'b', 'c'], res])
    return out, exp


_add(Cond('cumsum_both_axes', [(f'v{r}{c}', 'int') for r in range(2) for c in range(3)] + [(f'n{r}{c}', 'bool') for r in range(2) for c in range(3)], body_cumsum,
        functions=['Frame._ufunc_shape_skipna'],
        bounds='2x3 float64 frame; cells unbounded symbolic ints or NaN',
        route='Frame.cumsum(axis, skipna=True): shape and labels kept, running sums per line', timeout=300))


# ---------------------------------------------------------------- dtype mixes x ALL block layouts (concrete cells, symbolic structure)
# The symbolic inputs are STRUCTURAL: the kind of every column (int64 / float64 / bool), which float
# cells are missing, skipna.  Each solver path fixes them, then the real reduction runs over EVERY block
# layout that can hold those columns and is compared with the per-line computation on frame.values
# (the property's own oracle: "the same function applied independently to every column / row of its
# values") and thereby across layouts.

KINDS = (('int64', (3, 4)), ('float64', (1.5, 2.5)), ('bool', (True, True)))
FLOAT_BASE = (0.1, 0.2, 0.3)   # per column: 0.1 + 0.2 + 0.3 != 0.1 + (0.2 + 0.3), so a row sum regrouped per block shows


def cell_value(kind, r, c):
    if kind == 1:
        return FLOAT_BASE[c] + r
    return KINDS[kind][1][r]


def _conc(v, lo, hi):
    for k in range(lo, hi + 1):
        if v == k:
            return k
    raise AssertionError('out of range')


def lays_for(kinds):
    out = []
    for lay in layouts.compositions(len(kinds)):
        j, ok = 0, True
        for nd, w in lay:
            if len(set(kinds[j:j + w])) > 1:
                ok = False
            j += w
        if ok:
            out.append(lay)
    return out


def obs_series(env, s):
    return [env.obs(s.index.values.tolist()), s.values.dtype.kind, env.obs(s.values.tolist())]


def mk_mixed(op, nrows, axis, region=None, region_pre=None, tier='quick'):
    """region: None = whole input space; otherwise (name, precondition) isolating a known-finding region; region_pre of the
    main condition is its complement."""
    def body(env, k0, k1, k2, m0, m1, m2, skipna):
        from vf import rt
        kinds = [_conc(k, 0, 2) for k in (k0, k1, k2)]
        miss = [bool(m0), bool(m1), bool(m2)]
        skipna = bool(skipna)

        def run():
            sf = env.sf
            from static_frame.core.type_blocks import TypeBlocks
            cols = [[(env.nan if (miss[c] and r == 0) else cell_value(kinds[c], r, c)) for r in range(nrows)] for c in range(3)]
            dts = [KINDS[k][0] for k in kinds]
            got, oracle = [], None
            for lay in lays_for(kinds):
                tb = TypeBlocks.from_blocks(layouts.build_blocks_typed(env, cols, dts, lay))
                f = sf.Frame(tb, index=[100 + r for r in range(nrows)], columns=['a', 'b', 'c'])
                try:
                    got.append(obs_series(env, getattr(f, op)(axis=axis, skipna=skipna)))
                except Exception as e:  # noqa: BLE001
                    got.append(['raises', type(e).__name__])
                if oracle is None:
                    vals = f.values
                    labels = ['a', 'b', 'c'] if axis == 0 else [100 + r for r in range(nrows)]
                    try:
                        res = []
                        for i in range(len(labels)):
                            line = vals[:, i] if axis == 0 else vals[i]
                            res.append(env.obs(getattr(sf.Series(line), op)(skipna=skipna)))
                        oracle = [labels, res]
                    except Exception as e:  # noqa: BLE001
                        oracle = ['raises', type(e).__name__]
            # dtype of the result is compared ACROSS layouts (the per-line oracle yields elements, not an array)
            exp = []
            for g in got:
                if g[0] == 'raises' or oracle[0] == 'raises':
                    exp.append(oracle)
                else:
                    exp.append([oracle[0], got[0][1] if got[0][0] != 'raises' else g[1], oracle[1]])
            return got, exp
        return rt.untraced(run)
    pre = ['k0 == 1 or not m0', 'k1 == 1 or not m1', 'k2 == 1 or not m2']
    if region is not None:
        pre.append(region[1])
    elif region_pre:
        pre.append(region_pre)
    name = f'mixed_{op}_axis{axis}_{nrows}row' + (f'_{region[0]}_finding' if region else '')
    return Cond(name, [('k0', 'int'), ('k1', 'int'), ('k2', 'int'), ('m0', 'bool'), ('m1', 'bool'), ('m2', 'bool'), ('skipna', 'bool')], body,
            ranges={'k0': (0, 2), 'k1': (0, 2), 'k2': (0, 2)}, pre=pre,
            functions=['TypeBlocks.ufunc_axis_skipna', 'ufunc_axis_skipna'],
            bounds=f'{nrows}x3 frame; the kind of every column symbolic in (int64, float64, bool) (so the row dtype is int, float or object), a symbolic missing flag on the first cell of every float column, skipna symbolic; concrete cell values; EVERY block layout of 3 columns that can hold the kinds',
            route=f'Frame.{op}(axis={axis}, skipna) over every layout == Series(line of frame.values).{op}(skipna) per line; result dtype equal across layouts', tier=tier, timeout=400)


# Regions isolated as known findings (see known_findings.json F23, F24)
_OBJ = '(not (k0 == k1 == k2)) and (k0 == 2 or k1 == 2 or k2 == 2)'   # row dtype object: a bool column next to a non-bool one
_ANYM = '(m0 or m1 or m2)'
R_A = ('allnan_object', f'skipna and {_ANYM} and {_OBJ}')
R_C = ('nan_bool_noskip', f'(not skipna) and {_ANYM} and {_OBJ}')
for _op in ('sum', 'prod'):
    for _ax in (0, 1):
        _add(mk_mixed(_op, 1, _ax))
        _add(mk_mixed(_op, 2, _ax, tier='quick' if _op == 'sum' else 'thorough'))
for _op in ('min', 'max'):
    _add(mk_mixed(_op, 1, 0, region_pre=f'not ({R_A[1]})'))
    _add(mk_mixed(_op, 1, 0, region=R_A))
    _add(mk_mixed(_op, 2, 0, tier='thorough'))
    for _n in (1, 2):
        _add(mk_mixed(_op, _n, 1, region_pre=f'not ({R_C[1]})', tier='quick' if _n == 1 else 'thorough'))
        _add(mk_mixed(_op, _n, 1, region=R_C, tier='quick' if _n == 1 else 'thorough'))


# ---------------------------------------------------------------- logical reductions with missing cells over every block layout

def body_logical_all_layouts(env, n0, n1, n2, z0, z1, z2, z3, skipna):
    from vf import rt
    nan = [bool(n0), bool(n1), bool(n2)]
    zero = [bool(z0), bool(z1), bool(z2), bool(z3)]
    skipna = bool(skipna)

    def run():
        sf = env.sf
        from static_frame.core.type_blocks import TypeBlocks
        # row 0: NaN or 2.0 (or 0.0 for the first column when z3), row 1: 0.0 or 3.0
        rows = [[(env.nan if nan[c] else (0.0 if (c == 0 and zero[3]) else 2.0)) for c in range(3)], [(0.0 if zero[c] else 3.0) for c in range(3)]]
        ref = [[(M if nan[c] else (0 if (c == 0 and zero[3]) else 2)) for c in range(3)], [(0 if zero[c] else 3) for c in range(3)]]
        cols = [[rows[r][c] for r in range(2)] for c in range(3)]
        got, exp = [], []
        for lay in layouts.compositions(3):
            f = sf.Frame(TypeBlocks.from_blocks(layouts.build_blocks(env, cols, 'float64', lay)), index=[100, 101], columns=['a', 'b', 'c'])
            res = []
            for name in ('all', 'any'):
                for axis in (0, 1):
                    try:
                        res.append(env.obs(getattr(f, name)(axis=axis, skipna=skipna).values.tolist()))
                    except TypeError:
                        res.append('TypeError')
            got.append(res)
        want = []
        for name in ('all', 'any'):
            agg = all if name == 'all' else any
            for axis in (0, 1):
                ls = lines(ref, axis)
                if not skipna and any(M in l for l in ls):
                    want.append('TypeError')
                else:
                    # an all-missing line: all([]) is True, any([]) is False (as np.all / np.any of nothing)
                    want.append([agg(bool(v) for v in l if v != M) for l in ls])
        return got, [want] * len(got)
    return rt.untraced(run)


_add(Cond('logical_missing_all_layouts', [(p, 'bool') for p in ('n0', 'n1', 'n2', 'z0', 'z1', 'z2', 'z3', 'skipna')], body_logical_all_layouts,
        functions=['_ufunc_logical_skipna', 'TypeBlocks.ufunc_axis_skipna'],
        bounds='2x3 float64 frame; first-row cells missing or not, zero / non-zero pattern symbolic (7 Booleans), skipna symbolic; EVERY block layout of 3 columns',
        route='Frame.all / any (both axes, skipna): missing cells ignored with skipna and rejected (TypeError) without, the same over all block layouts', timeout=400))


# ---------------------------------------------------------------- position / label of the extreme value on mixed column kinds

def body_argminmax_kinds(env, k1, k2, m0, skipna, which, axis_flag):
    from vf import rt
    kinds = [1]
    for k in (k1, k2):
        for c in range(3):
            if k == c:
                kinds.append(c)
    m0, skipna, axis = bool(m0), bool(skipna), (1 if axis_flag else 0)
    name = ('iloc_min', 'iloc_max', 'loc_min', 'loc_max')[_conc(which, 0, 3)]

    def run():
        sf = env.sf
        from static_frame.core.type_blocks import TypeBlocks
        table = {0: (13, 4, 25), 1: (7.5, 2.5, 0.5), 2: (True, False, True)}
        cols = [list(table[k]) for k in kinds]
        cols[0] = [(env.nan if m0 else 9.5), 2.5, 30.5]          # a missing cell AHEAD of the extreme of its column
        ref_cols = [list(table[k]) for k in kinds]
        ref_cols[0] = [(M if m0 else 9.5), 2.5, 30.5]
        dts = [KINDS[{0: 0, 1: 1, 2: 2}[k]][0] for k in kinds]
        better = (lambda a, b: a < b) if name.endswith('min') else (lambda a, b: a > b)
        ref_rows = [[ref_cols[c][r] for c in range(3)] for r in range(3)]
        ls = ref_cols if axis == 0 else ref_rows
        labels = [100, 101, 102] if axis == 0 else ['a', 'b', 'c']
        want, bad = [], False
        for l in ls:
            if M in l and not skipna:
                bad = True
                want.append(M)
                continue
            best = None
            for i, v in enumerate(l):
                if v == M:
                    continue
                if best is None or better(v, l[best]):
                    best = i
            want.append(best)
        if name.startswith('loc'):
            exp = 'raises' if bad else [labels[i] for i in want]
        else:
            exp = want
        got = []
        for lay in lays_for(kinds):
            f = sf.Frame(TypeBlocks.from_blocks(layouts.build_blocks_typed(env, cols, dts, lay)), index=[100, 101, 102], columns=['a', 'b', 'c'])
            try:
                got.append(env.obs(getattr(f, name)(axis=axis, skipna=skipna).values.tolist()))
            except (RuntimeError, ValueError):
                got.append('raises')
        return got, [exp] * len(got)
    return rt.untraced(run)


_add(Cond('argminmax_column_kinds_all_layouts', [('k1', 'int'), ('k2', 'int'), ('m0', 'bool'), ('skipna', 'bool'), ('which', 'int'), ('axis_flag', 'bool')], body_argminmax_kinds,
        ranges={'k1': (0, 2), 'k2': (0, 2), 'which': (0, 3)},
        functions=['_argminmax_2d' if False else 'Frame.iloc_min'] if False else [],
        bounds='3x3 frame: a float column (first cell possibly missing) and two columns of symbolic kind (int64, float64, bool: the values array is float or object); iloc_min / iloc_max / loc_min / loc_max (symbolic), both axes, skipna symbolic; every block layout',
        route='Frame.iloc_min/iloc_max/loc_min/loc_max on mixed column kinds: position / label of the first extreme per line, missing cells skipped with skipna and never silently treated as numbers without', timeout=400))
