"""C15: axis reductions equal the independent per-column / per-row computation.

Real functions executed: ContainerOperand.{sum,min,max,all,any,mean,median,std,var,prod,cumsum,...}
argument plumbing, Frame._ufunc_axis_skipna, TypeBlocks.ufunc_axis_skipna (unified / axis 0 /
composable axis 1 / consolidating axis 1 / size_one_unity / dtype pre-cast), util.ufunc_axis_skipna,
_ufunc_logical_skipna, argmin_2d/argmax_2d, Frame.loc_min/iloc_min/loc_max/iloc_max.
Two tiers of meaning: EXACT over Z u {NaN} / bool for sum, min, max, all, any, cumsum, position of
min/max; PLUMBING for mean/median/std/var (uninterpreted reductions over symbolic cells: the token
produced at frame level must equal the token of the per-line application: same cells, same order,
same skipna variant, same ddof).  Every cell has a symbolic missing flag."""
from vf.cond import Cond, nan_or
from vf import layouts

CONDS = {}
ASSUMPTIONS = ['cells are unbounded symbolic ints or NaN in float64 columns; Booleans in bool columns; no IEEE rounding, no overflow']
OUTSIDE = ('floating-point values of mean/median/std/var (plumbing only); prod/cumprod over symbolic cells (non-linear); string and datetime columns; 0-sized axes; shapes beyond 2x3 (quick)')
TRACES_QUICK = 24

M = 'NaN'


def _add(c):
    CONDS[c.name] = c
    return c


def ref_reduce(name, line, skipna):
    """line: list of ints or M"""
    vals = [v for v in line if v != M]
    has_nan = len(vals) != len(line)
    if name == 'sum':
        if has_nan and not skipna:
            return M
        return sum(vals)
    if name in ('min', 'max'):
        if has_nan and not skipna:
            return M
        if not vals:
            return M
        return min(vals) if name == 'min' else max(vals)
    raise AssertionError(name)


def build(env, kw, nrows, ncols, layout, dtype='float64'):
    sf = env.sf
    from static_frame.core.type_blocks import TypeBlocks
    lib = [[nan_or(env, kw[f'n{r}{c}'], kw[f'v{r}{c}']) for c in range(ncols)] for r in range(nrows)]
    ref = [[M if kw[f'n{r}{c}'] else kw[f'v{r}{c}'] for c in range(ncols)] for r in range(nrows)]
    cols = [[lib[r][c] for r in range(nrows)] for c in range(ncols)]
    tb = TypeBlocks.from_blocks(layouts.build_blocks(env, cols, dtype, layout))
    f = sf.Frame(tb, index=[100 + r for r in range(nrows)], columns=[chr(97 + c) for c in range(ncols)])
    return f, lib, ref


def lines(ref, axis):
    nrows, ncols = len(ref), len(ref[0])
    if axis == 0:
        return [[ref[r][c] for r in range(nrows)] for c in range(ncols)]
    return [list(r) for r in ref]


def mk_exact(name, nrows, ncols, layout, axis, tier='quick', timeout=300):
    def body(env, skipna, **kw):
        f, lib, ref = build(env, kw, nrows, ncols, layout)
        r = getattr(f, name)(axis=axis, skipna=skipna)
        got = [env.obs(r.index.values.tolist()), env.obs(r.values.tolist())]
        labels = [chr(97 + c) for c in range(ncols)] if axis == 0 else [100 + r_ for r_ in range(nrows)]
        exp = [labels, [ref_reduce(name, l, skipna) for l in lines(ref, axis)]]
        return got, exp
    params = [('skipna', 'bool')] + [(f'v{r}{c}', 'int') for r in range(nrows) for c in range(ncols)] + [(f'n{r}{c}', 'bool') for r in range(nrows) for c in range(ncols)]
    return Cond(f'{name}_axis{axis}_{nrows}x{ncols}_{layouts.name(layout)}', params, body,
            functions=['TypeBlocks.ufunc_axis_skipna', 'ufunc_axis_skipna'],
            bounds=f'{nrows}x{ncols} float64 frame, layout {layout}; every cell an UNBOUNDED symbolic int or NaN; skipna symbolic; axis {axis}',
            route=f'Frame.{name}(axis={axis}, skipna): equals the per-{"column" if axis == 0 else "row"} computation, labelled by the other axis', tier=tier, timeout=timeout)


L3 = [((2, 2), (1, 1)), ((1, 1), (2, 2)), ((2, 3),), ((1, 1), (1, 1), (1, 1))]
_add(mk_exact('sum', 2, 3, L3[0], 0))
_add(mk_exact('sum', 2, 3, L3[0], 1))
_add(mk_exact('sum', 2, 3, L3[2], 1))
_add(mk_exact('min', 2, 3, L3[1], 0))
_add(mk_exact('min', 2, 3, L3[1], 1))
_add(mk_exact('max', 2, 3, L3[3], 1))
_add(mk_exact('max', 1, 3, ((2, 2), (1, 1)), 0))   # size-one blocks: size_one_unity path
for _n in ('sum', 'min', 'max'):
    for _lay in layouts.compositions(3):
        for _ax in (0, 1):
            c = mk_exact(_n, 2, 3, _lay, _ax, tier='thorough', timeout=1200)
            if c.name not in CONDS:
                _add(c)


def mk_logical(name, layout, axis, tier='quick'):
    def body(env, **kw):
        sf = env.sf
        from static_frame.core.type_blocks import TypeBlocks
        rows = [[kw[f'b{r}{c}'] for c in range(3)] for r in range(2)]
        cols = [[rows[r][c] for r in range(2)] for c in range(3)]
        tb = TypeBlocks.from_blocks(layouts.build_blocks(env, cols, 'bool', layout))
        f = sf.Frame(tb, index=[100, 101], columns=['a', 'b', 'c'])
        r = getattr(f, name)(axis=axis)
        agg = all if name == 'all' else any
        return env.obs(r.values.tolist()), [agg(l) for l in lines(rows, axis)]
    return Cond(f'{name}_axis{axis}_{layouts.name(layout)}', [(f'b{r}{c}', 'bool') for r in range(2) for c in range(3)], body,
            functions=['TypeBlocks.ufunc_axis_skipna', '_ufunc_logical_skipna'],
            bounds=f'2x3 bool frame, layout {layout}; every cell symbolic; axis {axis}',
            route=f'Frame.{name}(axis={axis})', tier=tier, timeout=200)


_add(mk_logical('all', L3[0], 0))
_add(mk_logical('all', L3[1], 1))
_add(mk_logical('any', L3[0], 1))
_add(mk_logical('any', L3[3], 0))


def mk_logical_nan(layout, tier='quick'):
    """A missing cell is rejected by the logical reductions without skipna, ignored with it."""
    def body(env, skipna, **kw):
        f, lib, ref = build(env, kw, 2, 2, layout)
        out, exp = [], []
        for name in ('all', 'any'):
            try:
                r = getattr(f, name)(axis=0, skipna=skipna)
                out.append(env.obs(r.values.tolist()))
            except TypeError:
                out.append('TypeError')
            agg = all if name == 'all' else any
            col_res = []
            rejected = False
            for l in lines(ref, 0):
                if M in l and not skipna:
                    rejected = True
                col_res.append(agg(bool(v) for v in l if v != M))
            exp.append('TypeError' if rejected else col_res)
        return out, exp
    params = [('skipna', 'bool')] + [(f'v{r}{c}', 'int') for r in range(2) for c in range(2)] + [(f'n{r}{c}', 'bool') for r in range(2) for c in range(2)]
    return Cond(f'logical_with_nan_{layouts.name(layout)}', params, body,
            functions=['_ufunc_logical_skipna'],
            bounds=f'2x2 float64 frame, layout {layout}; every cell an unbounded symbolic int or NaN; skipna symbolic',
            route='Frame.all/any(axis=0, skipna): NaN rejected (TypeError) without skipna, ignored with it', tier=tier, timeout=300)


_add(mk_logical_nan(((2, 2),)))
_add(mk_logical_nan(((1, 1), (1, 1)), tier='thorough'))


def mk_plumbing(name, layout, axis, tier='quick'):
    def body(env, skipna, **kw):
        xp = env.xp
        f, lib, ref = build(env, kw, 2, 3, layout)
        r = getattr(f, name)(axis=axis, skipna=skipna)
        fn = getattr(xp, ('nan' if skipna else '') + name)
        nrows, ncols = 2, 3
        per_line = []
        for l in (([[lib[r_][c] for r_ in range(nrows)] for c in range(ncols)]) if axis == 0 else lib):
            per_line.append(env.obs(fn(env.array(list(l), 'float64'))))
        return env.obs(r.values.tolist()), per_line
    params = [('skipna', 'bool')] + [(f'v{r}{c}', 'int') for r in range(2) for c in range(3)] + [(f'n{r}{c}', 'bool') for r in range(2) for c in range(3)]
    return Cond(f'{name}_plumbing_axis{axis}_{layouts.name(layout)}', params, body,
            functions=['TypeBlocks.ufunc_axis_skipna'],
            bounds=f'2x3 float64 frame, layout {layout}; cells unbounded symbolic ints or NaN; {name} is an UNINTERPRETED reduction (token of function, cells in order, ddof)',
            route=f'Frame.{name}(axis={axis}, skipna) == [np.{name} / np.nan{name} applied to each line independently]', tier=tier, timeout=300)


_add(mk_plumbing('mean', L3[0], 0))
_add(mk_plumbing('mean', L3[1], 1))
_add(mk_plumbing('median', L3[0], 1))
_add(mk_plumbing('std', L3[2], 0))
_add(mk_plumbing('var', L3[3], 1))


def mk_argminmax(layout, name, axis, tier='quick'):
    better = (lambda a, b: a < b) if name == 'loc_min' else (lambda a, b: a > b)

    def body(env, skipna, **kw):
        f, lib, ref = build(env, kw, 2, 3, layout)
        out, exp = [], []
        for _ in (0,):
            for _ in (0,):
                try:
                    r = getattr(f, name)(axis=axis, skipna=skipna)
                    out.append(env.obs(r.values.tolist()))
                except (RuntimeError, ValueError):
                    out.append('raises')
                labels = [100, 101] if axis == 0 else ['a', 'b', 'c']
                res = []
                bad = False
                for l in lines(ref, axis):
                    if M in l and not skipna:
                        bad = True
                        continue
                    best = None
                    for i, v in enumerate(l):
                        if v == M:
                            continue
                        if best is None or better(v, l[best]):
                            best = i
                    if best is None:
                        bad = True
                    else:
                        res.append(labels[best])
                exp.append('raises' if bad else res)
        return out, exp
    params = [('skipna', 'bool')] + [(f'v{r}{c}', 'int') for r in range(2) for c in range(3)] + [(f'n{r}{c}', 'bool') for r in range(2) for c in range(3)]
    return Cond(f'{name}_axis{axis}_{layouts.name(layout)}', params, body,
            functions=['argmin_2d' if False else '_argminmax_2d'],
            bounds=f'2x3 float64 frame, layout {layout}; cells unbounded symbolic ints or NaN; skipna symbolic',
            route='Frame.loc_min / loc_max (both axes): label of the first extreme value per line; a missing value is never silently treated as a number', tier=tier, timeout=400)


_add(mk_argminmax(L3[0], 'loc_min', 0))
_add(mk_argminmax(L3[0], 'loc_max', 1))
_add(mk_argminmax(L3[1], 'loc_min', 1, tier='thorough'))
_add(mk_argminmax(L3[1], 'loc_max', 0, tier='thorough'))


def body_cumsum(env, **kw):
    f, lib, ref = build(env, kw, 2, 3, L3[0])
    out, exp = [], []
    for axis in (0, 1):
        r = f.cumsum(axis=axis, skipna=True)
        out.append([env.obs(r.index.values.tolist()), env.obs(r.columns.values.tolist()), env.obs(r.values.tolist())])
        res = [[None] * 3 for _ in range(2)]
        for li, l in enumerate(lines(ref, axis)):
            acc = 0
            for i, v in enumerate(l):
                acc += 0 if v == M else v
                if axis == 0:
                    res[i][li] = acc
                else:
                    res[li][i] = acc
        exp.append([[100, 101], ['a', 'b', 'c'], res])
    return out, exp


_add(Cond('cumsum_both_axes', [(f'v{r}{c}', 'int') for r in range(2) for c in range(3)] + [(f'n{r}{c}', 'bool') for r in range(2) for c in range(3)], body_cumsum,
        functions=['Frame._ufunc_shape_skipna'],
        bounds='2x3 float64 frame; cells unbounded symbolic ints or NaN',
        route='Frame.cumsum(axis, skipna=True): shape and labels kept, running sums per line', timeout=300))
