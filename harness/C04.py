"""C04: selection returns exactly the addressed rows/columns with their labels.

Real functions executed: Frame._extract / _extract_axis_not_multi / _compound_loc_to_iloc,
TypeBlocks._extract / _slice_blocks / _key_to_block_slices / _indices_to_contiguous_pairs /
_cols_to_slice / _extract_array, Index._extract_iloc / _loc_to_iloc, LocMap.loc_to_iloc,
Series._extract_iloc / _extract_loc.  Cells are concrete and pairwise distinct (selection moves
cells, it does not compute on them); the KEYS are the symbolic inputs.  Oracle: Python list
indexing on a list-of-rows model (vf.refmodels)."""
from vf.cond import Cond
from vf import layouts
from vf.refmodels import obs_container, ref_frame_select, py_positions, coherent_labels

CONDS = {}
ASSUMPTIONS = ['cells concrete and distinct; labels concrete distinct ints/strs; keys symbolic']
OUTSIDE = ('datetime-typed indices and date-string keys; hierarchical indices (C05); Bus/Quilt selection; '
           'shapes beyond 3x4; slice |step| > 3 (quick) / 4 (thorough)')
TRACES_QUICK = 16


def _add(c):
    CONDS[c.name] = c
    return c


def mk_frame(env, nrows, layout, go=False):
    from vf import rt
    return rt.concrete(('C04frame', env.model, nrows, layout, go), lambda: _mk_frame(env, nrows, layout, go))


def _mk_frame(env, nrows, layout, go=False):
    sf = env.sf
    from static_frame.core.type_blocks import TypeBlocks
    ncols = sum(w for _, w in layout)
    rows = [[100 * (r + 1) + c for c in range(ncols)] for r in range(nrows)]
    cols = [[rows[r][c] for r in range(nrows)] for c in range(ncols)]
    tb = TypeBlocks.from_blocks(layouts.build_blocks(env, cols, 'int64', layout))
    index = [10 + r for r in range(nrows)]
    columns = [chr(ord('a') + c) for c in range(ncols)]
    cls = sf.FrameGO if go else sf.Frame
    f = cls(tb, index=index, columns=columns, name='nm')
    return f, rows, index, columns


def run_select(env, f, rows, index, columns, rk, ck, via='iloc'):
    try:
        exp = ref_frame_select(rows, index, columns, rk, ck)
    except IndexError:
        exp = ['raises', 'IndexError']
    from static_frame.core.exception import ErrorInitIndexNonUnique
    try:
        if via == 'iloc':
            r = f.iloc[rk, ck]
        else:
            r = f._extract(rk, ck)
        got = obs_container(env, r)
        if got[0] in 'FS' and exp[0] in 'FS':
            got = got + [coherent_labels(env, r)]     # the result's own indices find every one of their labels where it is
            exp = exp + [True]
    except IndexError:
        got = ['raises', 'IndexError']
    except ErrorInitIndexNonUnique:
        got = ['raises', 'ErrorInitIndexNonUnique']
    return got, exp


def _mk_slice(a, b, c):
    return slice(a, b, c)


L4_QUICK = [((1, 1), (2, 2), (1, 1)), ((2, 4),), ((2, 1), (1, 1), (2, 2)), ((2, 3), (1, 1)), ((1, 1), (1, 1), (1, 1), (1, 1)), ((2, 2), (2, 2))]


def _positions_have_repeats(key, n):
    if isinstance(key, list) and key and not isinstance(key[0], bool):
        norm = [k + n if k < 0 else k for k in key]
        return len(set(norm)) != len(norm)
    return False


def mk_col_slice(nrows, layout, step, tier='quick', timeout=None):
    def body(env, start, stop):
        f, rows, index, columns = mk_frame(env, nrows, layout)
        return run_select(env, f, rows, index, columns, slice(None), _mk_slice(start, stop, step))
    return Cond(f'iloc_colslice_{nrows}x_{layouts.name(layout)}_step{step}', [('start', 'oint'), ('stop', 'oint')], body,
            functions=['Frame._extract', 'TypeBlocks._extract', 'TypeBlocks._key_to_block_slices', 'TypeBlocks._slice_blocks', 'Index._extract_iloc'],
            bounds=f'{nrows}x4 int64 frame, layout {layout}; column slice start/stop UNBOUNDED symbolic Optional[int]; step = {step}',
            route=f'Frame.iloc[:, slice(start, stop, {step})]', tier=tier, timeout=timeout)


for lay in L4_QUICK[:2]:
    for step in (None, 1, 2, 3, -1, -2, -3):
        _add(mk_col_slice(2, lay, step))
for lay in layouts.compositions(4):
    for step in (None, 1, 2, 3, 4, -1, -2, -3, -4):
        c = mk_col_slice(3, lay, step, tier='thorough', timeout=600)
        if c.name not in CONDS:
            _add(c)


def mk_row_slice(nrows, layout, step, tier='quick'):
    def body(env, start, stop, col):
        f, rows, index, columns = mk_frame(env, nrows, layout)
        return run_select(env, f, rows, index, columns, _mk_slice(start, stop, step), col)
    return Cond(f'iloc_rowslice_colint_{nrows}x_{layouts.name(layout)}_step{step}', [('start', 'oint'), ('stop', 'oint'), ('col', 'int')], body,
            ranges={'col': (-1, 1)},
            functions=['Frame._extract', 'TypeBlocks._extract', 'TypeBlocks._slice_blocks'],
            bounds=f'{nrows}x4 int64 frame, layout {layout}; row-slice start/stop UNBOUNDED symbolic; step = {step}; column int in -1..1',
            route=f'Frame.iloc[slice(start, stop, {step}), col]', tier=tier)


for step in (None, 2, -1, -2):
    _add(mk_row_slice(3, L4_QUICK[2], step))


def mk_ints(nrows, layout, tier='quick'):
    def body(env, row, col):
        f, rows, index, columns = mk_frame(env, nrows, layout)
        g1, e1 = run_select(env, f, rows, index, columns, row, col)
        g2, e2 = run_select(env, f, rows, index, columns, row, slice(1, 3))
        g3, e3 = run_select(env, f, rows, index, columns, slice(None), col)
        return [g1, g2, g3], [e1, e2, e3]
    return Cond(f'iloc_ints_{nrows}x_{layouts.name(layout)}', [('row', 'int'), ('col', 'int')], body,
            functions=['Frame._extract', 'TypeBlocks._extract', 'Frame._extract_axis_not_multi'],
            bounds=f'{nrows}x4 int64 frame, layout {layout}; row and column ints UNBOUNDED symbolic (out of range must raise IndexError)',
            route='Frame.iloc[row, col], Frame.iloc[row, 1:3], Frame.iloc[:, col]', tier=tier)


for lay in L4_QUICK[:4]:
    _add(mk_ints(2, lay))


def mk_col_list(nrows, layout, tier='quick'):
    def body(env, k0, k1, row):
        f, rows, index, columns = mk_frame(env, nrows, layout)
        key = [k0, 2, k1]
        got, exp = run_select(env, f, rows, index, columns, row, key)
        if exp[0] != 'raises' and _positions_have_repeats(key, 4):
            exp = ['raises', 'ErrorInitIndexNonUnique']  # repeated positions would duplicate labels: must be rejected
        return got, exp
    return Cond(f'iloc_collist_{nrows}x_{layouts.name(layout)}', [('k0', 'int'), ('k1', 'int'), ('row', 'int')], body,
            ranges={'row': (0, 1)},
            functions=['Frame._extract', 'TypeBlocks._key_to_block_slices', 'TypeBlocks._indices_to_contiguous_pairs'],
            bounds=f'{nrows}x4 int64 frame, layout {layout}; column list [k0, 2, k1] with k0, k1 UNBOUNDED symbolic ints (negatives, out-of-range, repeats); row int in 0..1',
            route='Frame.iloc[row, [k0, 2, k1]]', tier=tier)


_add(mk_col_list(2, L4_QUICK[0]))
_add(mk_col_list(2, L4_QUICK[3]))
_add(mk_col_list(2, L4_QUICK[5]))


def mk_col_mask(nrows, layout, tier='quick'):
    def body(env, m0, m1, m2, m3, r0, r1):
        f, rows, index, columns = mk_frame(env, nrows, layout)
        ck = env.array([m0, m1, m2, m3], 'bool')
        rk = env.array([r0, r1] + [True] * (nrows - 2), 'bool')
        try:
            got = obs_container(env, f.iloc[rk, ck])
        except IndexError:
            got = ['raises', 'IndexError']
        exp = ref_frame_select(rows, index, columns, [r0, r1] + [True] * (nrows - 2), [m0, m1, m2, m3])
        return got, exp
    return Cond(f'iloc_masks_{nrows}x_{layouts.name(layout)}', [(f'm{i}', 'bool') for i in range(4)] + [('r0', 'bool'), ('r1', 'bool')], body,
            functions=['Frame._extract', 'TypeBlocks._key_to_block_slices'],
            bounds=f'{nrows}x4 int64 frame, layout {layout}; Boolean array keys on both axes, every mask value symbolic',
            route='Frame.iloc[bool_array, bool_array]', tier=tier)


_add(mk_col_mask(2, L4_QUICK[0]))
_add(mk_col_mask(2, L4_QUICK[2]))


# ---- label selection: loc == iloc o positions; label slices include the stop label; absent label raises

def mk_loc(nrows, layout, tier='quick', step=None):
    def body(env, rl, c_start, c_stop):
        f, rows, index, columns = mk_frame(env, nrows, layout)
        # column labels are 'a'..'d'; symbolic ints choose the slice end labels
        def lab(i):
            if i is None:
                return None
            for k in range(len(columns)):
                if i == k:
                    return columns[k]
            return 'zz'  # absent label
        ls, le = lab(c_start), lab(c_stop)
        try:
            if rl not in index:
                raise KeyError(rl)
            ri = index.index(rl)
            if ls == 'zz' or le == 'zz':
                raise KeyError('zz')
            s = None if ls is None else columns.index(ls)
            if step is not None and step < 0:
                # the stop label is INCLUDED: the positional stop lies one beyond it in the direction of travel
                e = None if (le is None or columns.index(le) == 0) else columns.index(le) - 1
            else:
                e = None if le is None else columns.index(le) + 1
            exp = ref_frame_select(rows, index, columns, ri, slice(s, e, step))
        except KeyError:
            exp = ['raises', 'KeyError']
        from static_frame.core.exception import LocInvalid
        try:
            got = obs_container(env, f.loc[rl, ls:le:step])
        except (KeyError, LocInvalid):  # both are the library's "label not found" errors
            got = ['raises', 'KeyError']
        return got, exp
    return Cond(f'loc_rowlabel_colslice_{nrows}x_{layouts.name(layout)}' + ('' if step is None else f'_step{step}'), [('rl', 'int'), ('c_start', 'oint'), ('c_stop', 'oint')], body,
            ranges={'c_start': (0, 4), 'c_stop': (0, 4)},
            functions=['Frame._compound_loc_to_iloc', 'Index._loc_to_iloc', 'LocMap.loc_to_iloc', 'LocMap.map_slice_args', 'Frame._extract'],
            bounds=f'{nrows}x4 frame, layout {layout}; row label an UNBOUNDED symbolic int (absent labels must raise), column label-slice ends chosen among the 4 labels, an absent label, or None; step ' + repr(step) + ' (the stop label is included in either direction)',
            route='Frame.loc[row_label, col_label_start:col_label_stop:step]', tier=tier)


_add(mk_loc(2, L4_QUICK[0]))
_add(mk_loc(3, L4_QUICK[2]))
_add(mk_loc(2, L4_QUICK[0], step=-1))
_add(mk_loc(2, L4_QUICK[2], step=-2))
_add(mk_loc(2, L4_QUICK[3], step=2))


# ---- Series: iloc int / slice / list, loc label, Boolean Series key aligned by label

def _series(env):
    from vf import rt
    sf = env.sf
    vals = [7, 8, 9, 10]
    labels = [3, 1, 4, 2]
    return vals, labels, rt.concrete(('C04series', env.model), lambda: sf.Series(env.array(vals, 'int64'), index=labels, name='sn'))


def mk_series(step):
    def body_series(env, start, stop):
        from vf.refmodels import ref_slice_positions
        vals, labels, s = _series(env)
        try:
            got = obs_container(env, s.iloc[slice(start, stop, step)])
        except IndexError:
            got = ['raises', 'IndexError']
        pos = ref_slice_positions(slice(start, stop, step), 4)
        return got, ['S', [labels[i] for i in pos], [vals[i] for i in pos], 'sn']
    return Cond(f'series_iloc_slice_step{step}', [('start', 'oint'), ('stop', 'oint')], body_series,
        functions=['Series._extract_iloc', 'Index._extract_iloc'],
        bounds=f'Series of 4; slice start/stop UNBOUNDED symbolic, step = {step}',
        route='Series.iloc[slice]')


for _st in (None, 2, -1, -3):
    _add(mk_series(_st))


def body_series_int_label(env, k, lab):
    vals, labels, s = _series(env)
    out_g, out_e = [], []
    try:
        out_g.append(obs_container(env, s.iloc[k]))
    except IndexError:
        out_g.append(['raises', 'IndexError'])
    out_e.append(['E', vals[k]] if -4 <= k < 4 else ['raises', 'IndexError'])
    try:
        out_g.append(obs_container(env, s.loc[lab]))
    except KeyError:
        out_g.append(['raises', 'KeyError'])
    out_e.append(['E', vals[labels.index(lab)]] if lab in labels else ['raises', 'KeyError'])
    from static_frame.core.exception import LocInvalid
    try:
        out_g.append(obs_container(env, s.loc[lab:]))
    except (KeyError, LocInvalid):
        out_g.append(['raises', 'KeyError'])
    if lab in labels:
        p = labels.index(lab)
        out_e.append(['S', labels[p:], vals[p:], 'sn'])
    else:
        out_e.append(['raises', 'KeyError'])
    return out_g, out_e


_add(Cond('series_iloc_int_loc_label', [('k', 'int'), ('lab', 'int')], body_series_int_label,
        functions=['Series._extract_iloc', 'Series._extract_loc', 'Index._loc_to_iloc', 'LocMap.loc_to_iloc'],
        bounds='Series of 4; positional int key and label key UNBOUNDED symbolic ints (out-of-range / absent must raise)',
        route='Series.iloc[int], Series.loc[label], Series.loc[label:]'))


def body_series_boolkey(env, b0, b1, b2, b3, p):
    """Boolean Series key is aligned BY LABEL: the key's labels are a rotation of the target's."""
    sf = env.sf
    vals = [7, 8, 9, 10]
    labels = [3, 1, 4, 2]
    s = sf.Series(env.array(vals, 'int64'), index=labels)
    bools = [b0, b1, b2, b3]
    rot = None
    for k in range(4):
        if p == k:
            rot = k
    klabels = labels[rot:] + labels[:rot]
    key = sf.Series(env.array(bools, 'bool'), index=klabels)
    want = {l: b for l, b in zip(klabels, bools)}
    got = obs_container(env, s.loc[key])
    sel = [i for i, l in enumerate(labels) if want[l]]
    return got, ['S', [labels[i] for i in sel], [vals[i] for i in sel], None]


_add(Cond('series_loc_boolseries', [(f'b{i}', 'bool') for i in range(4)] + [('p', 'int')], body_series_boolkey,
        ranges={'p': (0, 3)},
        functions=['Series._extract_loc', 'Index._loc_to_iloc'],
        bounds='Series of 4; Boolean Series key with the same labels rotated by a symbolic amount, every Boolean symbolic',
        route='Series.loc[bool Series]'))


# ---- bloc selection: a Boolean Frame / array key returns exactly the True cells, each paired with its
#      own (row label, column label)

def mk_bloc(nrows, layout, tier='quick'):
    def body(env, **kw):
        sf = env.sf
        f, rows, index, columns = mk_frame(env, nrows, layout)
        mask = [[kw[f'b{r}{c}'] for c in range(4)] for r in range(nrows)]
        key = env.array(mask, 'bool')
        s = f.bloc[key]
        got = [[env.obs(list(l)) if isinstance(l, tuple) else env.obs(l), env.obs(v)] for l, v in zip(s.index, s.values.tolist())]
        exp = [[[index[r], columns[c]], rows[r][c]] for r in range(nrows) for c in range(4) if mask[r][c]]
        return sorted(got, key=str), sorted(exp, key=str)
    return Cond(f'bloc_{nrows}x_{layouts.name(layout)}', [(f'b{r}{c}', 'bool') for r in range(nrows) for c in range(4)], body,
            functions=['Frame._extract_bloc', 'TypeBlocks.extract_bloc'],
            bounds=f'{nrows}x4 int64 frame, layout {layout}; every cell of the Boolean key symbolic',
            route='Frame.bloc[bool array]: exactly the True cells, each with its own (row, column) label', tier=tier, timeout=240)


_add(mk_bloc(1, L4_QUICK[0]))
_add(mk_bloc(2, L4_QUICK[3]))
_add(mk_bloc(2, L4_QUICK[5], tier='thorough'))
_add(mk_bloc(2, L4_QUICK[2], tier='thorough'))


# ---- two-step: positional selection on an AUTO-INTEGER index, then label selection on the result

def mk_auto_two_step(step, tier='quick'):
    def body(env, start, stop, lab):
        sf = env.sf
        from vf import rt
        from vf.refmodels import ref_slice_positions
        from static_frame.core.exception import LocInvalid
        vals = [10, 11, 12, 13, 14, 15]
        s = rt.concrete(('C04auto', env.model), lambda: sf.Series(env.array(vals, 'int64')))   # labels 0..5 (auto index)
        t = s.iloc[slice(start, stop, step)]
        pos = ref_slice_positions(slice(start, stop, step), 6)
        out = [env.obs(t.index.values.tolist()), env.obs(t.values.tolist())]
        exp = [pos, [vals[i] for i in pos]]
        # the labels of the result are the ORIGINAL labels: looking one up returns that label's value
        try:
            out.append(env.obs(t.loc[lab]))
        except (KeyError, LocInvalid, IndexError):
            out.append('lookup-error')
        exp.append(vals[lab] if lab in pos else 'lookup-error')
        out.append(env.obs(lab in t.index))
        exp.append(lab in pos)
        return out, exp
    return Cond(f'auto_index_slice_then_loc_step{step}', [('start', 'oint'), ('stop', 'oint'), ('lab', 'int')], body,
            ranges={'lab': (0, 6)},   # negative labels on a map-less index: finding F12 (C02), isolated there
            functions=['Index._extract_iloc', 'Index._loc_to_iloc'],
            bounds=f'auto-indexed Series of 6; positional slice start/stop UNBOUNDED symbolic, step = {step}; then label lookup with a symbolic label in 0..6',
            route='Series.iloc[slice] then .loc[label] / `in`: the result keeps the original labels', tier=tier, timeout=240)


for _st in (None, 2, -1):
    _add(mk_auto_two_step(_st))
_add(mk_auto_two_step(3, tier='thorough'))
_add(mk_auto_two_step(-2, tier='thorough'))



# ---------------------------------------------------------------- Boolean Series keys are aligned by label: flat and hierarchical, both axes

def body_boolseries_aligned(env, b0, b1, b2, b3, p, hier, target):
    from vf import rt
    bools = [bool(b0), bool(b1), bool(b2), bool(b3)]
    rot, hier = None, bool(hier)
    for k in range(4):
        if p == k:
            rot = k
    tgt = None
    for k in range(3):
        if target == k:
            tgt = k

    def run():
        sf = env.sf
        labels = [('a', 1), ('a', 2), ('b', 1), ('b', 3)] if hier else [3, 1, 4, 2]
        mk_index = (lambda labs: sf.IndexHierarchy.from_labels(labs)) if hier else (lambda labs: sf.Index(labs))
        # the key holds the SAME labels in another order (a rotation; for the hierarchy the two outer groups swap for odd rotations)
        if hier:
            orders = ([0, 1, 2, 3], [1, 0, 2, 3], [2, 3, 0, 1], [3, 2, 1, 0])
            order = orders[rot]
        else:
            order = [(i + rot) % 4 for i in range(4)]
        klabels = [labels[i] for i in order]
        key = sf.Series(env.array(bools, 'bool'), index=mk_index(klabels))
        want = {l: b for l, b in zip(klabels, bools)}
        sel = [i for i, l in enumerate(labels) if want[l]]
        vals = [7, 8, 9, 10]
        lab_obs = (lambda ls: [list(l) for l in ls]) if hier else (lambda ls: list(ls))

        def idx_obs(ix):
            return env.obs([list(t) for t in ix]) if ix.depth > 1 else env.obs(ix.values.tolist())
        if tgt == 0:
            s = sf.Series(env.array(vals, 'int64'), index=mk_index(labels))
            r = s.loc[key]
            got = [idx_obs(r.index), env.obs(r.values.tolist())]
            exp = [lab_obs([labels[i] for i in sel]), [vals[i] for i in sel]]
        elif tgt == 1:
            f = sf.Frame.from_items((('x', env.array(vals, 'int64')), ('y', env.array([v + 100 for v in vals], 'int64'))), index=mk_index(labels))
            r = f.loc[key]
            got = [idx_obs(r.index), env.obs(r.values.tolist())]
            exp = [lab_obs([labels[i] for i in sel]), [[vals[i], vals[i] + 100] for i in sel]]
        else:
            f = sf.Frame(env.array([vals, [v + 100 for v in vals]], 'int64'), index=[0, 1], columns=mk_index(labels))
            r = f[key]
            got = [idx_obs(r.columns), env.obs(r.values.tolist())]
            exp = [lab_obs([labels[i] for i in sel]), [[vals[i] for i in sel], [vals[i] + 100 for i in sel]]]
        if not sel:
            got[1], exp[1] = [], []
        return got, exp
    return rt.untraced(run)


_add(Cond('loc_boolseries_key_aligned_by_label', [(f'b{i}', 'bool') for i in range(4)] + [('p', 'int'), ('hier', 'bool'), ('target', 'int')], body_boolseries_aligned,
        ranges={'p': (0, 3), 'target': (0, 2)},
        functions=['Index._loc_to_iloc', 'IndexHierarchy._loc_to_iloc', 'key_from_container_key'],
        bounds='4 labels, flat or depth-2 hierarchical (symbolic); Boolean Series key over the same labels in one of 4 orders (symbolic), every Boolean symbolic; Series.loc / Frame.loc (rows) / Frame[...] (columns) (symbolic)',
        route='selection with a Boolean Series key: aligned by LABEL to the selected axis whatever the order of the key, on flat and hierarchical indices', timeout=400))


# ---------------------------------------------------------------- datetime index: exact, partial-period and slice keys, also after growth

DAYS = ('2020-01-30', '2020-01-31', '2020-02-01', '2020-02-02', '2020-03-01')


def body_datetime_keys(env, n0, grow, read, kk, go):
    """IndexDate / IndexDateGO over the first n0 of five days; optionally read (arrays cached) and then grown by the next
    day(s); then a key of a symbolic form selects: exact day (str / date / datetime64), a month (str / datetime64[M]), a
    slice between a day and a month.  Reference: list comprehension over ISO strings."""
    from vf import rt
    import datetime
    n0, grow, read, kk, go = None if False else n0, grow, bool(read), kk, bool(go)
    for k in range(1, 5):
        if n0 == k:
            n0 = k
    for k in range(0, 3):
        if grow == k:
            grow = k
    for k in range(0, 7):
        if kk == k:
            kk = k

    def run():
        sf = env.sf
        import numpy as real_np
        n_final = min(n0 + (grow if go else 0), 5)
        if go:
            ix = sf.IndexDateGO(DAYS[:n0])
            f = sf.FrameGO(env.array([list(range(n0))], 'int64'), index=[0], columns=ix)
            if read:
                _ = f.columns.values
                _ = f['2020-01']
            for j in range(n0, n_final):
                f[DAYS[j]] = env.array([j], 'int64')
        else:
            f = sf.Frame(env.array([list(range(n0))], 'int64'), index=[0], columns=sf.IndexDate(DAYS[:n0]))
        held = list(DAYS[:n_final])
        keys = [('2020-02-01', lambda d: d == '2020-02-01'), (datetime.date(2020, 1, 31), lambda d: d == '2020-01-31'),
                (real_np.datetime64('2020-02-02'), lambda d: d == '2020-02-02'), ('2020-02', lambda d: d.startswith('2020-02')),
                (real_np.datetime64('2020-01'), lambda d: d.startswith('2020-01')),
                (slice('2020-01-31', '2020-02'), lambda d: '2020-01-31' <= d and d[:7] <= '2020-02'),
                (slice('2020-02', None), lambda d: d[:7] >= '2020-02')]
        key, pred = keys[kk]
        want = [i for i, d in enumerate(held) if pred(d)]
        exact = kk in (0, 1, 2)
        if (kk == 5 and not ('2020-01-31' in held and any(d.startswith('2020-02') for d in held))) or (kk == 6 and not any(d.startswith('2020-02') for d in held)):
            # a slice end that names a day / period with no label: the library answers LocInvalid or an empty selection;
            # the property does not say which: outside
            return ['outside'], ['outside']
        try:
            r = f[key]
            if isinstance(r, sf.Series):
                got = ['S', str(r.name), env.obs(r.values.tolist())]
            else:
                got = ['F', [str(c) for c in r.columns.values.tolist()], env.obs(r.values.tolist()[0]) if r.shape[1] else []]
        except KeyError:
            got = ['KeyError']
        if exact:
            exp = ['S', held[want[0]], [want[0]]] if want else ['KeyError']
        else:
            exp = ['F', [held[i] for i in want], [i for i in want]]
        return got, exp
    return rt.untraced(run)


_add(Cond('datetime_index_keys_after_growth', [('n0', 'int'), ('grow', 'int'), ('read', 'bool'), ('kk', 'int'), ('go', 'bool')], body_datetime_keys,
        ranges={'n0': (1, 4), 'grow': (0, 2), 'kk': (0, 6)}, pre=['go or (grow == 0 and not read)'],
        functions=['Index._loc_to_iloc', 'LocMap.loc_to_iloc'],
        bounds='IndexDate / IndexDateGO columns (symbolic) over the first 1..4 of five days; for the grow-only form: arrays read or not, then 0..2 further days appended; key form symbolic over exact day (str / date / datetime64), month (str / datetime64[M]), slices mixing a day and a month',
        route='Frame[...] on a datetime index: exact keys select their label or raise KeyError, a coarser key selects every label inside the period, slices include their stop period; also right after growth of a grow-only index', timeout=400))


# ---------------------------------------------------------------- column KINDS symbolic, every block layout

SEL_KINDS = (('int64', (3, 4)), ('float64', (1.5, 2.5)), ('bool', (True, False)), ('<U1', ('x', 'y')))
ROW_KEYS = (0, 1, slice(None), [1, 0])
COL_KEYS = (0, 2, slice(0, 2), slice(None, None, -1), [2, 0], [True, False, True])


def _lays_for(kinds):
    out = []
    for lay in layouts.compositions(len(kinds)):
        j, ok = 0, True
        for nd, w in lay:
            if len(set(kinds[j:j + w])) > 1:
                ok = False
            j += w
        if ok:
            out.append(lay)
    return out


def body_sel_kinds(env, k1, k2, rk, ck):
    from vf import rt
    kinds = [0]
    for k in (k1, k2):
        for c in range(len(SEL_KINDS)):
            if k == c:
                kinds.append(c)
    rkey = ckey = None
    for i, key in enumerate(ROW_KEYS):
        if rk == i:
            rkey = key
    for i, key in enumerate(COL_KEYS):
        if ck == i:
            ckey = key

    def run():
        sf = env.sf
        from static_frame.core.type_blocks import TypeBlocks
        cols = [list(SEL_KINDS[k][1]) for k in kinds]
        # distinct cells per column position so that a mixed-up column shows
        cols[0] = [3, 4]
        rows = [[cols[c][r] for c in range(3)] for r in range(2)]
        index, columns = [10, 11], ['a', 'b', 'c']
        dts = [SEL_KINDS[k][0] for k in kinds]
        exp = ref_frame_select(rows, index, columns, rkey, ckey)
        cpos, cmulti = py_positions(ckey, 3)
        rpos, rmulti = py_positions(rkey, 2)
        if exp[0] == 'F':
            exp = exp + [[env.xp.dtype(dts[j]).kind for j in cpos]]
        got = []
        for lay in _lays_for(kinds):
            tb = TypeBlocks.from_blocks(layouts.build_blocks_typed(env, cols, dts, lay))
            f = sf.Frame(tb, index=index, columns=columns)
            # a Boolean key is passed as a Boolean ARRAY (the documented form; a Python list of bools is read as a mask by
            # the blocks and as positions by the labels and raises ErrorInitFrame: outside the documented key types)
            lib_ckey = env.array(list(ckey), 'bool') if (isinstance(ckey, list) and isinstance(ckey[0], bool)) else ckey
            r = f.iloc[rkey, lib_ckey]
            o = obs_container(env, r)
            if o[0] == 'F':
                o = o + [[dt.kind for dt in r._blocks._dtypes]]
            got.append(o)
        return got, [exp] * len(got)
    return rt.untraced(run)


_add(Cond('selection_column_kinds_all_layouts', [('k1', 'int'), ('k2', 'int'), ('rk', 'int'), ('ck', 'int')], body_sel_kinds,
        ranges={'k1': (0, 3), 'k2': (0, 3), 'rk': (0, len(ROW_KEYS) - 1), 'ck': (0, len(COL_KEYS) - 1)},
        functions=['TypeBlocks._extract', 'TypeBlocks._slice_blocks'],
        bounds='2x3 frame; the kind of the 2nd and 3rd column symbolic over (int64, float64, bool, str); row key symbolic over (0, 1, :, [1, 0]), column key over (0, 2, 0:2, ::-1, [2, 0], Boolean mask); EVERY block layout that can hold the kinds; concrete cells',
        route='Frame.iloc[row key, column key] on mixed column kinds: the addressed cells with their labels, value AND type kept (a Frame result keeps every column dtype), the same over all block layouts', timeout=400))


# ---------------------------------------------------------------- E3: unbounded second opinion on two integer kernels of selection

def extra_queries(tier):
    """TypeBlocks._cols_to_slice (a run of contiguous positions inside a block -> slice) and util.slice_to_inclusive_slice
    (label slices include their stop label) translated from their CURRENT source (AST -> z3), ALL integers."""
    from vf import e3, world
    e3.validate_spec()
    recs = e3.check_cols_to_slice(world.REPO) + e3.check_inclusive(world.REPO)
    for r in recs:
        r['expect'] = 'exactly the positions of the run, in its direction' if 'cols_to_slice' in r['cond'] else 'start + offset, stop + 1 + offset, step and None kept'
    return recs


def extra_replay(rec):
    from vf import e3, world
    if 'cols_to_slice' in rec['cond']:
        return e3.replay_cols_to_slice(world.REPO, rec['args'])
    return e3.replay_inclusive(world.REPO, rec['args'])
