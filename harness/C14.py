"""C14: missing-value operations act per cell exactly as specified.

Real functions executed: isna_array, binary_transition, roll_1d/roll_2d, slices_from_targets,
TypeBlocks._fillna_sided_axis_0/1, _fillna_directional_axis_0/1, fillna, dropna_to_keep_locations,
isna/notna, Series.isna/notna/dropna/fillna/_fillna_directional/_fillna_sided/count,
Frame.fillna*/dropna/count/isna.
THE MISSING PATTERN IS THE SYMBOLIC INPUT: one solver Boolean per cell decides whether it holds NaN,
so a confirmed condition covers every pattern of the shape.  Non-missing cells are concrete and
pairwise distinct (fills copy cells, they do not compute on them).  Oracle: per-line Python fill."""
from vf.cond import Cond
from vf import layouts

CONDS = {}
ASSUMPTIONS = ['missing marker is NaN in float64 columns (None in the object-column condition); non-missing cells concrete']
OUTSIDE = ('NaT / datetime columns; string columns; shapes beyond 3x3 (thorough) / 2x3 (quick); fillna with a Frame value beyond the 2x2 condition')
TRACES_QUICK = 24


def _add(c):
    CONDS[c.name] = c
    return c


from vf.refmodels import M, ref_directional, ref_sided, by_axis  # noqa: E402,F401


def cells_from_flags(env, flags, base=10):
    """-> (library cells, reference cells)"""
    lib = [env.nan if f else base + i for i, f in enumerate(flags)]
    ref = [M if f else base + i for i, f in enumerate(flags)]
    return lib, ref


# ---------------------------------------------------------------- Series

def mk_series_directional(n, limit, tier='quick'):
    def body(env, **kw):
        sf = env.sf
        from vf import rt
        flags = [bool(kw[f'm{i}']) for i in range(n)]   # one solver decision per cell, then everything is concrete

        def run():
            lib, ref = cells_from_flags(env, flags)
            s = sf.Series(env.array(lib, 'float64'), index=list(range(100, 100 + n)), name='sn')
            got = [env.obs(s.fillna_forward(limit).values.tolist()), env.obs(s.fillna_backward(limit).values.tolist()),
                   env.obs(s.values.tolist())]
            exp = [ref_directional(ref, True, limit), ref_directional(ref, False, limit), ref]
            return got, exp
        return rt.untraced(run)
    return Cond(f'series_directional_n{n}_limit{limit}', [(f'm{i}', 'bool') for i in range(n)], body,
            functions=['Series._fillna_directional', 'binary_transition', 'slices_from_targets', 'isna_array'],
            bounds=f'float64 Series of {n}; every missing pattern (one symbolic Boolean per cell); limit = {limit}',
            route='Series.fillna_forward(limit) / fillna_backward(limit); original unchanged', tier=tier)


for _l in (0, 1, 2):
    _add(mk_series_directional(4, _l))
for _l in (0, 1, 2, 3):
    _add(mk_series_directional(5, _l, tier='thorough'))


def body_series_misc(env, fill, **kw):
    sf = env.sf
    n = 4
    flags = [kw[f'm{i}'] for i in range(n)]
    lib, ref = cells_from_flags(env, flags)
    labels = list(range(100, 100 + n))
    s = sf.Series(env.array(lib, 'float64'), index=labels, name='sn')
    keep = [i for i in range(n) if not flags[i]]
    d = s.dropna()
    got = [env.obs(s.isna().values.tolist()), env.obs(s.notna().values.tolist()),
           env.obs(list(d.index.values)), env.obs(d.values.tolist()),
           env.obs(s.fillna(fill).values.tolist()), env.obs(s.count()),
           env.obs(s.fillna_leading(fill).values.tolist()), env.obs(s.fillna_trailing(fill).values.tolist())]
    exp = [flags, [not f for f in flags], [labels[i] for i in keep], [ref[i] for i in keep],
           [fill if f else r for f, r in zip(flags, ref)], len(keep),
           ref_sided(ref, True, fill), ref_sided(ref, False, fill)]
    return got, exp


_add(Cond('series_isna_dropna_fillna_count_sided', [(f'm{i}', 'bool') for i in range(4)] + [('fill', 'int')], body_series_misc,
        functions=['Series.isna', 'Series.dropna', 'Series.fillna', 'Series.count', 'Series._fillna_sided'],
        bounds='float64 Series of 4; every missing pattern; fill element an unbounded symbolic int',
        route='Series.isna / notna / dropna / fillna(v) / count / fillna_leading(v) / fillna_trailing(v)', timeout=150))


def body_series_fill_aligned(env, m0, m1, m2, f0, f1, p):
    """fillna with a label-aligned Series that covers only some labels, in a rotated order."""
    sf = env.sf
    flags = [m0, m1, m2]
    lib, ref = cells_from_flags(env, flags)
    labels = [100, 101, 102]
    s = sf.Series(env.array(lib, 'float64'), index=labels)
    # filler covers labels 101 and 102 only (in either order); its own cells may be missing too
    fvals = {101: (env.nan if f0 else -1), 102: (env.nan if f1 else -2)}
    order = [102, 101] if p else [101, 102]
    filler = sf.Series(env.array([fvals[l] for l in order], 'float64'), index=order)
    got = env.obs(s.fillna(filler).values.tolist())
    rf = {101: (M if f0 else -1), 102: (M if f1 else -2)}
    exp = [(rf[l] if (ref[i] == M and l in rf) else ref[i]) for i, l in enumerate(labels)]
    return got, exp


_add(Cond('series_fillna_aligned_series', [('m0', 'bool'), ('m1', 'bool'), ('m2', 'bool'), ('f0', 'bool'), ('f1', 'bool'), ('p', 'bool')], body_series_fill_aligned,
        functions=['Series.fillna'],
        bounds='float64 Series of 3, filler Series over 2 of the 3 labels in either order; every missing pattern of both',
        route='Series.fillna(Series): label-aligned, uncovered labels untouched'))


# ---------------------------------------------------------------- Frame / TypeBlocks over layouts

def mk_frame(env, flags_rows, layout, dtype='float64'):
    sf = env.sf
    from static_frame.core.type_blocks import TypeBlocks
    nrows, ncols = len(flags_rows), len(flags_rows[0])
    lib_rows, ref_rows = [], []
    for r in range(nrows):
        lib_rows.append([env.nan if flags_rows[r][c] else 10 * (r + 1) + c for c in range(ncols)])
        ref_rows.append([M if flags_rows[r][c] else 10 * (r + 1) + c for c in range(ncols)])
    cols = [[lib_rows[r][c] for r in range(nrows)] for c in range(ncols)]
    tb = TypeBlocks.from_blocks(layouts.build_blocks(env, cols, dtype, layout))
    f = sf.Frame(tb, index=list(range(100, 100 + nrows)), columns=[chr(97 + c) for c in range(ncols)], name='nm')
    return f, ref_rows


def mk_frame_directional(nrows, ncols, layout, axis, limit, tier='quick', timeout=None):
    def body(env, **kw):
        from vf import rt
        flags = [[bool(kw[f'm{r}{c}']) for c in range(ncols)] for r in range(nrows)]

        def run():
            f, ref = mk_frame(env, flags, layout)
            got = [env.obs(f.fillna_forward(limit, axis=axis).values.tolist()),
                   env.obs(f.fillna_backward(limit, axis=axis).values.tolist()),
                   env.obs(f.values.tolist())]
            exp = [by_axis(ref, axis, lambda l: ref_directional(l, True, limit)),
                   by_axis(ref, axis, lambda l: ref_directional(l, False, limit)), ref]
            return got, exp
        return rt.untraced(run)
    fn = ['TypeBlocks._fillna_directional_axis_1' if axis else 'TypeBlocks._fillna_directional_axis_0', 'binary_transition', 'slices_from_targets']
    return Cond(f'frame_directional_{nrows}x{ncols}_{layouts.name(layout)}_axis{axis}_limit{limit}',
            [(f'm{r}{c}', 'bool') for r in range(nrows) for c in range(ncols)], body, functions=fn,
            bounds=f'{nrows}x{ncols} float64 frame, layout {layout}; every missing pattern; axis {axis}, limit {limit}' + (' (fills cross block boundaries)' if axis == 1 else ''),
            route=f'Frame.fillna_forward/backward(limit={limit}, axis={axis}); original unchanged', tier=tier, timeout=timeout)


L3 = [((1, 1), (2, 2)), ((2, 2), (1, 1)), ((1, 1), (1, 1), (1, 1)), ((2, 3),), ((2, 1), (2, 2))]
for _lay in L3:
    for _lim in (0, 1, 2):
        _add(mk_frame_directional(2, 3, _lay, 1, _lim, timeout=200))
_add(mk_frame_directional(2, 4, ((2, 2), (2, 2)), 1, 1, timeout=240))
_add(mk_frame_directional(2, 4, ((1, 1), (2, 3)), 1, 2, timeout=240))
_add(mk_frame_directional(1, 6, ((1, 1), (2, 5)), 1, 2, timeout=240))   # wide 2-D block after a 1-D block, limit 2
_add(mk_frame_directional(3, 2, ((1, 1), (1, 1)), 0, 1, timeout=200))
_add(mk_frame_directional(3, 2, ((2, 2),), 0, 0, timeout=200))
for _lay in layouts.compositions(3):
    for _ax in (0, 1):
        for _lim in (0, 1, 2):
            c = mk_frame_directional(3, 3, _lay, _ax, _lim, tier='thorough', timeout=1500)
            _add(c)


def mk_frame_sided(nrows, ncols, layout, axis, tier='quick'):
    def body(env, fill, **kw):
        flags = [[kw[f'm{r}{c}'] for c in range(ncols)] for r in range(nrows)]
        f, ref = mk_frame(env, flags, layout)
        got = [env.obs(f.fillna_leading(fill, axis=axis).values.tolist()),
               env.obs(f.fillna_trailing(fill, axis=axis).values.tolist())]
        exp = [by_axis(ref, axis, lambda l: ref_sided(l, True, fill)), by_axis(ref, axis, lambda l: ref_sided(l, False, fill))]
        return got, exp
    return Cond(f'frame_sided_{nrows}x{ncols}_{layouts.name(layout)}_axis{axis}',
            [(f'm{r}{c}', 'bool') for r in range(nrows) for c in range(ncols)] + [('fill', 'int')], body,
            functions=['TypeBlocks._fillna_sided_axis_1' if axis else 'TypeBlocks._fillna_sided_axis_0'],
            bounds=f'{nrows}x{ncols} float64 frame, layout {layout}; every missing pattern; axis {axis}; fill an unbounded symbolic int',
            route=f'Frame.fillna_leading/trailing(v, axis={axis})', tier=tier, timeout=200)


_add(mk_frame_sided(2, 3, L3[0], 1))
_add(mk_frame_sided(2, 3, L3[1], 1))
_add(mk_frame_sided(3, 2, ((2, 2),), 0))
_add(mk_frame_sided(3, 2, ((1, 1), (1, 1)), 0))


def mk_frame_all_layouts(nrows, ncols, axis, what, tier='quick'):
    """One solver Boolean per cell as above; every path then runs the fill over EVERY block layout of the columns (cells
    are concrete, so each path is a handful of concrete library calls): block boundaries in every position, 1-D and 2-D
    blocks first, interior and last."""
    lays = layouts.compositions(ncols)

    def body(env, **kw):
        from vf import rt
        flags = [[bool(kw[f'm{r}{c}']) for c in range(ncols)] for r in range(nrows)]

        def run():
            got, exp = [], []
            for lay in lays:
                f, ref = mk_frame(env, flags, lay)
                if what == 'sided':
                    got.append([env.obs(f.fillna_leading(-7, axis=axis).values.tolist()), env.obs(f.fillna_trailing(-7, axis=axis).values.tolist())])
                    exp.append([by_axis(ref, axis, lambda l: ref_sided(l, True, -7)), by_axis(ref, axis, lambda l: ref_sided(l, False, -7))])
                else:
                    got.append([env.obs(f.fillna_forward(axis=axis).values.tolist()), env.obs(f.fillna_backward(axis=axis).values.tolist())])
                    exp.append([by_axis(ref, axis, lambda l: ref_directional(l, True, 0)), by_axis(ref, axis, lambda l: ref_directional(l, False, 0))])
            return got, exp
        return rt.untraced(run)
    fn = {('sided', 1): 'TypeBlocks._fillna_sided_axis_1', ('sided', 0): 'TypeBlocks._fillna_sided_axis_0',
          ('directional', 1): 'TypeBlocks._fillna_directional_axis_1', ('directional', 0): 'TypeBlocks._fillna_directional_axis_0'}[(what, axis)]
    return Cond(f'frame_{what}_{nrows}x{ncols}_all_layouts_axis{axis}', [(f'm{r}{c}', 'bool') for r in range(nrows) for c in range(ncols)], body,
            functions=[fn],
            bounds=f'{nrows}x{ncols} float64 frame in EVERY one of the {len(lays)} block layouts of {ncols} columns; every missing pattern; axis {axis}; ' + ('fill value -7' if what == 'sided' else 'no limit'),
            route=('Frame.fillna_leading/trailing' if what == 'sided' else 'Frame.fillna_forward/backward') + f'(axis={axis}) over every block layout', tier=tier, timeout=300)


_add(mk_frame_all_layouts(1, 4, 1, 'sided'))
_add(mk_frame_all_layouts(2, 3, 1, 'sided'))
_add(mk_frame_all_layouts(1, 4, 1, 'directional'))
_add(mk_frame_all_layouts(2, 3, 0, 'sided'))
_add(mk_frame_all_layouts(2, 3, 0, 'directional'))
_add(mk_frame_all_layouts(1, 5, 1, 'sided', tier='thorough'))
_add(mk_frame_all_layouts(1, 5, 1, 'directional', tier='thorough'))
_add(mk_frame_all_layouts(3, 3, 1, 'sided', tier='thorough'))


def mk_frame_misc(layout, part, tier='quick'):
    def body(env, fill=0, **kw):
        import numpy  # noqa: F401
        flags = [[kw[f'm{r}{c}'] for c in range(3)] for r in range(2)]
        f, ref = mk_frame(env, flags, layout)
        xp = env.xp
        out, exp = [], []
        if part == 'cells':
            out.append(env.obs(f.isna().values.tolist())); exp.append(flags)
            out.append(env.obs(f.fillna(fill).values.tolist())); exp.append([[fill if flags[r][c] else ref[r][c] for c in range(3)] for r in range(2)])
            out.append(env.obs(f.count(axis=0).values.tolist())); exp.append([sum(1 for r in range(2) if not flags[r][c]) for c in range(3)])
            out.append(env.obs(f.count(axis=1).values.tolist())); exp.append([sum(1 for c in range(3) if not flags[r][c]) for r in range(2)])
            return out, exp
        # dropna: rows (axis 0) / columns (axis 1) where ALL (default) or ANY cells are missing
        for axis, cond_name in (((0, 'all'), (1, 'any')) if part == 'dropna_a' else ((0, 'any'), (1, 'all'))):
            agg = all if cond_name == 'all' else any
            d = f.dropna(axis=axis, condition=getattr(xp, cond_name))
            if axis == 0:
                keep = [r for r in range(2) if not agg(flags[r])]
                want = [[100 + r for r in keep], ['a', 'b', 'c'], [ref[r] for r in keep]]
            else:
                keep = [c for c in range(3) if not agg([flags[r][c] for r in range(2)])]
                want = [[100, 101], [chr(97 + c) for c in keep], [[ref[r][c] for c in keep] for r in range(2)]]
            vals = d.values.tolist() if d.shape[0] and d.shape[1] else [[] for _ in range(d.shape[0])]
            out.append([env.obs(list(d.index.values)), env.obs(list(d.columns.values)), env.obs(vals)])
            if not want[2] or not want[1]:
                want[2] = [[] for _ in want[0]] if want[1] == [] else want[2]
            exp.append(want)
        return out, exp
    return Cond(f'frame_{part}_{layouts.name(layout)}', [(f'm{r}{c}', 'bool') for r in range(2) for c in range(3)] + ([('fill', 'int')] if part == 'cells' else []), body,
            functions=['Frame.isna', 'Frame.fillna', 'Frame.count', 'Frame.dropna', 'TypeBlocks.dropna_to_keep_locations'],
            bounds=f'2x3 float64 frame, layout {layout}; every missing pattern; fill an unbounded symbolic int',
            route='Frame.isna / fillna(v) / count(axis) / dropna(axis, all|any)', tier=tier, timeout=300)


for _part in ('cells', 'dropna_a', 'dropna_b'):
    _add(mk_frame_misc(L3[0], _part))
_add(mk_frame_misc(L3[3], 'cells', tier='thorough'))
_add(mk_frame_misc(L3[3], 'dropna_a'))


def body_mixed_kinds(env, m0, m1, n0, n1, fill):
    """float column (NaN), object column (None), int and bool columns that can never be missing."""
    sf = env.sf
    fcol = [env.nan if m0 else 1, env.nan if m1 else 2]
    ocol = [None if n0 else 'x', None if n1 else 'y']
    f = sf.Frame.from_items((('f', env.array(fcol, 'float64')), ('i', env.array([7, 8], 'int64')),
                             ('o', env.array(ocol, 'object')), ('b', env.array([True, False], 'bool'))))
    isna = [[m0, False, n0, False], [m1, False, n1, False]]
    got = [env.obs(f.isna().values.tolist()), env.obs(f.fillna(fill).values.tolist()),
           env.obs(f.fillna_forward().values.tolist()), [dt.kind for dt in f.fillna(fill)._blocks._dtypes][1::2]]
    rf = [[M if m0 else 1, 7, M if n0 else 'x', True], [M if m1 else 2, 8, M if n1 else 'y', False]]
    filled = [[fill if isna[r][c] else rf[r][c] for c in range(4)] for r in range(2)]
    ff = by_axis(rf, 0, lambda l: ref_directional(l, True, 0))
    # observation maps NaN -> 'NaN' and None -> None: align reference
    def unmark(rows):
        return [[(None if (v == M and c == 2) else v) for c, v in enumerate(r)] for r in rows]
    exp = [isna, filled, unmark(ff), ['i', 'b']]
    return got, exp


_add(Cond('frame_mixed_kinds', [('m0', 'bool'), ('m1', 'bool'), ('n0', 'bool'), ('n1', 'bool'), ('fill', 'int')], body_mixed_kinds,
        functions=['Frame.isna', 'Frame.fillna', 'TypeBlocks._fillna_directional_axis_0'],
        bounds='2x4 frame with float64 (NaN), int64, object (None) and bool columns; every missing pattern; fill an unbounded symbolic int',
        route='Frame.isna / fillna / fillna_forward on mixed column kinds; never-missing columns keep their dtype', timeout=200))


# ---------------------------------------------------------------- directional fill ACROSS blocks of different kinds

MK = (('float64', (1.5, 2.5, 3.5)), ('int64', (7, 8, 9)), ('bool', (True, False, True)))


def _lays_for(kinds):
    out = []
    for lay in layouts.compositions(len(kinds)):
        j, ok = 0, True
        for nd, w in lay:
            if len(set(kinds[j:j + w])) > 1:
                ok = False
            j += w
        if ok:
            out.append(lay)
    return out


def body_directional_mixed(env, k0, k1, k2, m0, m1, m2):
    """A fill along axis 1 carries a value of one column kind into a column of another kind: the carried value must arrive
    unchanged (value and type), whatever block layout holds the columns."""
    from vf import rt
    kinds = []
    for k in (k0, k1, k2):
        for c in range(3):
            if k == c:
                kinds.append(c)
    miss = [bool(m0), bool(m1), bool(m2)]

    def run():
        sf = env.sf
        from static_frame.core.type_blocks import TypeBlocks
        lib = [(env.nan if miss[c] else MK[kinds[c]][1][c]) for c in range(3)]
        ref = [(M if miss[c] else MK[kinds[c]][1][c]) for c in range(3)]
        got, exp = [], []
        for lay in _lays_for(kinds):
            tb = TypeBlocks.from_blocks(layouts.build_blocks_typed(env, [[v] for v in lib], [MK[k][0] for k in kinds], lay))
            f = sf.Frame(tb, index=[100], columns=['a', 'b', 'c'])
            got.append([env.obs(f.fillna_forward(axis=1).values.tolist()), env.obs(f.fillna_backward(axis=1).values.tolist()),
                        env.obs(f.fillna_forward(1, axis=1).values.tolist())])
            exp.append([[ref_directional(ref, True, 0)], [ref_directional(ref, False, 0)], [ref_directional(ref, True, 1)]])
        return got, exp
    return rt.untraced(run)


_add(Cond('frame_directional_axis1_mixed_kinds', [('k0', 'int'), ('k1', 'int'), ('k2', 'int'), ('m0', 'bool'), ('m1', 'bool'), ('m2', 'bool')], body_directional_mixed,
        ranges={'k0': (0, 2), 'k1': (0, 2), 'k2': (0, 2)}, pre=['k0 == 0 or not m0', 'k1 == 0 or not m1', 'k2 == 0 or not m2'],
        functions=['TypeBlocks._fillna_directional_axis_1'],
        bounds='one-row frame of 3 columns; the kind of every column symbolic over (float64, int64, bool), float cells possibly missing (symbolic); every block layout that can hold the kinds',
        route='Frame.fillna_forward / fillna_backward(axis=1): a value carried into a column of another kind arrives unchanged (value and type)', timeout=300))


# ---------------------------------------------------------------- missing-value KINDS: NaN, None, NaT in float / object / datetime columns, every layout

import numpy as _real_np  # noqa: E402  (concrete datetime64 scalars are NumPy's own objects in both worlds)

NAT = _real_np.datetime64('NaT')
MISS_KINDS = (  # (dtype, values for rows 0..2, missing marker in the library, tag)
    ('float64', (1.5, 2.5, 3.5), 'nan'), ('object', ('x', 'y', 'z'), 'none'), ('object', (7, 'y', 2.5), 'nan'),
    ('datetime64[D]', tuple(_real_np.datetime64(f'2020-01-0{d}') for d in (1, 2, 3)), 'nat'), ('int64', (7, 8, 9), None))
PATTERNS = ((False, False, False), (True, False, False), (False, True, False), (True, True, False), (False, False, True))


def _obs_cell(env, v):
    import datetime
    if isinstance(v, _real_np.datetime64):
        return M if _real_np.isnat(v) else str(v)
    if isinstance(v, datetime.date):
        return v.isoformat()       # a datetime64[D] cell of a column that became object (filled with a non-date) is a date
    if v is None:
        return M
    return env.obs(v)


def _obs_rows(env, rows):
    return [[_obs_cell(env, v) for v in row] for row in rows]


def body_missing_kinds(env, k0, k1, p0, p1, part='cells'):
    from vf import rt
    ks = []
    for k, choices in ((k0, (0, 1, 3)), (k1, (2, 3, 4))):
        for c in range(3):
            if k == c:
                ks.append(choices[c])
    ks.append(4)                                      # third column: int64, never missing
    pats = []
    for p in (p0, p1):
        for c in range(len(PATTERNS)):
            if p == c:
                pats.append(PATTERNS[c])
    pats.append((False, False, False))
    for c in range(2):
        if MISS_KINDS[ks[c]][2] is None:
            pats[c] = (False, False, False)
    def run():
        sf = env.sf
        from static_frame.core.type_blocks import TypeBlocks
        xp = env.xp
        marker = {'nan': env.nan, 'none': None, 'nat': NAT, None: None}
        cols = [[(marker[MISS_KINDS[ks[c]][2]] if pats[c][r] else MISS_KINDS[ks[c]][1][r]) for r in range(3)] for c in range(3)]
        ref = [[(M if pats[c][r] else _obs_cell(env, MISS_KINDS[ks[c]][1][r])) for c in range(3)] for r in range(3)]
        flags = [[pats[c][r] for c in range(3)] for r in range(3)]
        dts = [MISS_KINDS[k][0] for k in ks]
        index, columns = [100, 101, 102], ['a', 'b', 'c']
        got, exp = [], []
        for lay in _lays_for([(k, dts[i]) for i, k in enumerate(ks)]):
            tb = TypeBlocks.from_blocks(layouts.build_blocks_typed(env, cols, dts, lay))
            f = sf.Frame(tb, index=index, columns=columns)
            out, want = [], []
            if part == 'cells':
                out.append(env.obs(f.isna().values.tolist())); want.append(flags)
                out.append(env.obs(f.notna().values.tolist())); want.append([[not x for x in row] for row in flags])
                out.append(env.obs(f.count(axis=0).values.tolist())); want.append([sum(1 for r in range(3) if not flags[r][c]) for c in range(3)])
                out.append(env.obs(f.count(axis=1).values.tolist())); want.append([sum(1 for c in range(3) if not flags[r][c]) for r in range(3)])
                for c in range(3):
                    s = f.iloc[:, c]
                    out.append([env.obs(s.isna().values.tolist()), env.obs(s.count()), [_obs_cell(env, v) for v in s.dropna().values.tolist()] if MISS_KINDS[ks[c]][0] != 'datetime64[D]' else [_obs_cell(env, v) for v in s.dropna().values]])
                    want.append([[flags[r][c] for r in range(3)], sum(1 for r in range(3) if not flags[r][c]), [ref[r][c] for r in range(3) if not flags[r][c]]])
            elif part == 'fill':
                for name, fwd in (('fillna_forward', True), ('fillna_backward', False)):
                    r = getattr(f, name)(axis=0)
                    out.append(_obs_rows(env, [[r.iloc[i, j] for j in range(3)] for i in range(3)]))
                    want.append(by_axis(ref, 0, lambda l: ref_directional(l, fwd, 0)))
                for c in range(2):
                    s = f.iloc[:, c]
                    out.append([[_obs_cell(env, v) for v in s.fillna_forward().values], [_obs_cell(env, v) for v in s.fillna_backward(1).values]])
                    line = [ref[r][c] for r in range(3)]
                    want.append([ref_directional(line, True, 0), ref_directional(line, False, 1)])
                r = f.fillna(-7)
                out.append(_obs_rows(env, [[r.iloc[i, j] for j in range(3)] for i in range(3)]))
                want.append([[(-7 if flags[i][j] else ref[i][j]) for j in range(3)] for i in range(3)])
            else:
                for axis, cond_name in ((0, 'any'), (0, 'all'), (1, 'any'), (1, 'all')):
                    agg = all if cond_name == 'all' else any
                    d = f.dropna(axis=axis, condition=getattr(xp, cond_name))
                    if axis == 0:
                        keep = [r for r in range(3) if not agg(flags[r])]
                        want.append([[index[r] for r in keep], columns])
                    else:
                        keep = [c for c in range(3) if not agg([flags[r][c] for r in range(3)])]
                        want.append([index, [columns[c] for c in keep]])
                    out.append([env.obs(d.index.values.tolist()), env.obs(d.columns.values.tolist())])
            got.append(out); exp.append(want)
        return got, exp
    return rt.untraced(run)


def _which(v, n):
    for k in range(n):
        if v == k:
            return k
    raise AssertionError('out of range')





def _lays_for(kinds):
    out = []
    for lay in layouts.compositions(len(kinds)):
        j, ok = 0, True
        for nd, w in lay:
            if len(set(kinds[j:j + w])) > 1:
                ok = False
            j += w
        if ok:
            out.append(lay)
    return out


for _part in ('cells', 'fill', 'drop'):
    _add(Cond(f'missing_value_kinds_all_layouts_{_part}', [('k0', 'int'), ('k1', 'int'), ('p0', 'int'), ('p1', 'int')], body_missing_kinds,
        ranges={'k0': (0, 2), 'k1': (0, 2), 'p0': (0, 3), 'p1': (0, 3)}, fixed={'part': _part},
        functions=['isna_array'] + (['Frame.dropna'] if _part == 'drop' else []),
        bounds='3x3 frame: a column of symbolic kind (float64 with NaN / object with None / datetime64[D] with NaT), a column of symbolic kind (object with NaN / datetime64[D] with NaT / int64) and an int column; the missing pattern of each symbolic over 4 patterns; every block layout; ' + {'cells': 'isna / notna / count / Series.isna / count / dropna', 'fill': 'fillna_forward / fillna_backward (Frame axis 0, Series, limit) and fillna(v)', 'drop': 'Frame.dropna (any / all, both axes)'}[_part],
        route='missing-value operations on NaN, None and NaT alike: per cell exactly as specified, for Frames in every layout and for their column Series', timeout=600))


# ---------------------------------------------------------------- fillna with a CONTAINER: aligned by label, whatever the label order / block order

def body_fillna_series_unsorted(env, perm, m0, m1, m2, m3, cover):
    from vf import rt
    perms = ((0, 1, 2, 3), (0, 1, 3, 2), (3, 2, 1, 0), (2, 0, 3, 1))
    order = perms[_which(perm, 4)]
    flags = [bool(m0), bool(m1), bool(m2), bool(m3)]
    cover = _which(cover, 3)

    def run():
        sf = env.sf
        names = ['a', 'b', 'c', 'd']
        labels = [names[i] for i in order]                      # the filled Series' own (possibly unsorted) label order
        vals = [(env.nan if flags[p] else 10 + p) for p in range(4)]
        s = sf.Series(env.array(vals, 'float64'), index=labels)
        # the filler covers all labels / the last three / c and d only, in ITS own (sorted or reversed) order
        covered = (names, names[1:], names[2:])[cover]
        forder = list(reversed(covered)) if cover == 1 else list(covered)
        filler = sf.Series(env.array([200 + names.index(l) for l in forder], 'float64'), index=forder)
        r = s.fillna(filler)
        exp = []
        for p, l in enumerate(labels):
            if flags[p]:
                exp.append(200 + names.index(l) if l in covered else M)
            else:
                exp.append(10 + p)
        return [env.obs(r.values.tolist()), env.obs(r.index.values.tolist()), env.obs(s.values.tolist())], [exp, labels, [(M if flags[p] else 10 + p) for p in range(4)]]
    return rt.untraced(run)


_add(Cond('series_fillna_series_label_orders', [('perm', 'int'), ('m0', 'bool'), ('m1', 'bool'), ('m2', 'bool'), ('m3', 'bool'), ('cover', 'int')], body_fillna_series_unsorted,
        ranges={'perm': (0, 3), 'cover': (0, 2)},
        functions=['Series.fillna'],
        bounds='float64 Series of 4 whose labels come in one of four orders (sorted / partly swapped / reversed / shuffled), every missing pattern; filler Series over all / three / two of the labels in its own order',
        route='Series.fillna(Series): every missing cell takes the filler value of ITS OWN label (or stays missing when the filler lacks it) whatever the label order of either side', timeout=300))


def body_fillna_frame_layouts(env, m0, m1, m2, m3, k0, shuffle):
    from vf import rt
    flags = [bool(m0), bool(m1), bool(m2), bool(m3)]
    k0, shuffle = _which(k0, 3), bool(shuffle)

    def run():
        sf = env.sf
        from static_frame.core.type_blocks import TypeBlocks
        # columns: i (never missing: int / str / float-without-NaN, symbolic), then p q r (float, first-row cells possibly missing), row 1 of r too
        first = (('int64', (7, 8)), ('<U1', ('x', 'y')), ('float64', (0.5, 1.5)))[k0]
        cols = [list(first[1]), [(env.nan if flags[0] else 11.0), 21.0], [(env.nan if flags[1] else 12.0), 22.0], [(env.nan if flags[2] else 13.0), (env.nan if flags[3] else 23.0)]]
        dts = [first[0], 'float64', 'float64', 'float64']
        names = ['i', 'p', 'q', 'r']
        ref = [[env.obs(cols[c][r]) for c in range(4)] for r in range(2)]
        fill_cols = {'p': [100.0, 101.0], 'q': [200.0, 201.0], 'r': [300.0, 301.0]}
        forder = ['r', 'p', 'q'] if shuffle else ['p', 'q', 'r']
        filler = sf.Frame.from_items(((c, env.array(fill_cols[c], 'float64')) for c in forder), index=[11, 10] if shuffle else [10, 11])
        frows = {11: 0, 10: 1} if shuffle else {10: 0, 11: 1}
        exp = [[(fill_cols[names[c]][frows[10 + r]] if ref[r][c] == M else ref[r][c]) for c in range(4)] for r in range(2)]
        exp = [[env.obs(v) for v in row] for row in exp]
        got = []
        kinds = [dts[0] + 'x', 'f', 'f', 'f'] if dts[0] != 'float64' else ['f'] * 4
        for lay in _lays_for(kinds):
            f = sf.Frame(TypeBlocks.from_blocks(layouts.build_blocks_typed(env, cols, dts, lay)), index=[10, 11], columns=names)
            r = f.fillna(filler)
            got.append([[env.obs(r.iloc[i, j]) for j in range(4)] for i in range(2)])
        return got, [exp] * len(got)
    return rt.untraced(run)


_add(Cond('frame_fillna_frame_all_layouts', [('m0', 'bool'), ('m1', 'bool'), ('m2', 'bool'), ('m3', 'bool'), ('k0', 'int'), ('shuffle', 'bool')], body_fillna_frame_layouts,
        ranges={'k0': (0, 2)},
        functions=['Frame.fillna'],
        bounds='2x4 frame: a never-missing first column of symbolic kind (int64 / str / float64) followed by three float columns with symbolic missing cells; filler Frame over the float columns with rows and columns in the same or another order (symbolic); every block layout',
        route='Frame.fillna(Frame): every missing cell takes the filler cell of its own (row, column) labels, blocks without missing cells before blocks with them included', timeout=400))
