"""C18: parallel execution gives the same answer as sequential execution.

Real functions executed: IterNodeDelegate._apply_iter_items_parallel / apply_pool / apply_iter_items /
apply, Batch._apply_pool / _apply_pool_except / _apply_attr / apply / apply_except, with both pool
classes bound to the executor contract model (vf/npmodel/executor.py): map collects its iterables
immediately, returns results in submission order, re-raises a task's exception when its result is
retrieved; the ORDER IN WHICH TASKS RUN is a symbolic permutation (nondeterminism tape), so any
dependence on completion order shows up.  In the real-NumPy world (trace validation / replay) the
same harness runs on real ThreadPoolExecutors.
Symbolic: cell values, completion order, chunksize, max_workers, index of a failing task."""
from vf.cond import Cond

CONDS = {}
ASSUMPTIONS = ['concurrent.futures contract as documented (see vf/npmodel/executor.py); tasks are the pure functions supplied by the harness']
OUTSIDE = ('real OS scheduling and process pools (pickling of tasks/results); _StoreZip read_many/write pool branches (zip I/O)')
TRACES_QUICK = 20


def _add(c):
    CONDS[c.name] = c
    return c


def install_tape(env, kw, n):
    if env.model:
        env.nondet.install([kw[f'tape{i}'] for i in range(n)])


class TaskError(Exception):
    pass


def concretize(v, lo, hi):
    for k in range(lo, hi + 1):
        if v == k:
            return k
    raise AssertionError('out of range')


def mk_iter_pool(kind, n, tier='quick'):
    TAPE = 2 * sum((k - 1).bit_length() for k in range(2, n + 1))   # two parallel runs, ceil(log2 k) bits per scheduling choice
    def body(env, chunksize, max_workers, fail_at, **kw):
        from vf import rt
        chunksize = concretize(chunksize, 1, 2)
        max_workers = concretize(max_workers, 1, 2)
        fail_at = concretize(fail_at, -1, n - 1)
        tape = [bool(kw[f'tape{i}']) for i in range(TAPE)]
        return rt.untraced(lambda: run(env, chunksize, max_workers, fail_at, tape))

    def run(env, chunksize, max_workers, fail_at, tape):
        sf = env.sf
        if env.model:
            env.nondet.install(tape)
        vals = [7 * (i + 1) for i in range(n)]      # distinct constants: values only flow through the tasks
        labels = [100 + i for i in range(n)]

        if kind == 'series_element':
            src = sf.Series(env.array(vals, 'int64'), index=labels)
            node = lambda: src.iter_element()           # noqa: E731
            node_items = lambda: src.iter_element_items()   # noqa: E731
            fn = lambda x: _task(x, None, fail_at, vals)    # noqa: E731
            fn_items = lambda kv: _task(kv[1], kv[0], fail_at, vals)  # noqa: E731
        else:
            src = sf.Frame.from_items((('a', env.array(vals, 'int64')), ('b', env.array([v + 1 for v in vals], 'int64'))), index=labels)
            node = lambda: src.iter_series(axis=1)      # noqa: E731
            node_items = lambda: src.iter_series_items(axis=1)  # noqa: E731
            fn = lambda s: _task(s.values.tolist()[0], None, fail_at, vals)  # noqa: E731
            fn_items = lambda kv: _task(kv[1].values.tolist()[0], kv[0], fail_at, vals)  # noqa: E731

        def run(make, f, parallel):
            try:
                if parallel:
                    r = make().apply_pool(f, max_workers=max_workers, chunksize=chunksize, use_threads=True)
                elif make is node_items:
                    r = make().apply(lambda k, v: f((k, v)))   # sequential items form passes (label, value) as two arguments
                else:
                    r = make().apply(f)
                return [env.obs(r.index.values.tolist()), env.obs(r.values.tolist())]
            except TaskError:
                return 'TaskError'
        got = [run(node, fn, True), run(node_items, fn_items, True)]
        seq = [run(node, fn, False), run(node_items, fn_items, False)]
        # reference, independent of the library: label -> f(value), or the error when a task fails
        failing = [i for i in range(n) if i == fail_at]
        ref = 'TaskError' if failing else [labels, [v * 2 + 1 for v in vals]]
        return [got, seq], [[ref, ref], [ref, ref]]
    return Cond(f'apply_pool_{kind}_n{n}', [('chunksize', 'int'), ('max_workers', 'int'), ('fail_at', 'int')], body, tape=TAPE,
            ranges={'chunksize': (1, 2), 'max_workers': (1, 2), 'fail_at': (-1, n - 1)},
            functions=['IterNodeDelegate._apply_iter_items_parallel', 'IterNodeDelegate.apply_pool'],
            bounds=f'{n} items (constant distinct values); chunksize 1..2, max_workers 1..2, failing task index -1 (none)..{n - 1}, task completion order of both parallel runs: symbolic permutations ({TAPE} tape Booleans); all split by value, then executed concretely',
            route=f'{kind}: apply_pool(values and items forms) == apply == {{label: f(value)}}; a failing task raises out of the result', tier=tier, timeout=300)


def _task(x, label, fail_at, vals):
    # the task fails for the item at position fail_at (identified by its value's position)
    if fail_at >= 0 and x == vals[fail_at]:   # values are pairwise distinct (precondition)
        raise TaskError()
    return x * 2 + 1


_add(mk_iter_pool('series_element', 3))
_add(mk_iter_pool('frame_rows', 3))
_add(mk_iter_pool('series_element', 4, tier='thorough'))


def mk_batch(n, tier='quick'):
    def body(env, chunksize, max_workers, **kw):
        from vf import rt
        chunksize = concretize(chunksize, 1, 2)
        max_workers = concretize(max_workers, 1, 2)
        tape = [bool(kw[f'tape{i}']) for i in range(2 * n)]
        return rt.untraced(lambda: run(env, chunksize, max_workers, tape))

    def run(env, chunksize, max_workers, tape):
        sf = env.sf
        if env.model:
            env.nondet.install(tape)
        vals = [7 * (i + 1) for i in range(n)]
        names = ['f%d' % i for i in range(n)]
        frames = [sf.Frame.from_items((('a', env.array([vals[i], vals[i] + 1], 'int64')),), name=names[i]) for i in range(n)]

        def run(mw):
            b = sf.Batch.from_frames(frames, max_workers=mw, chunksize=chunksize, use_threads=True)
            res = (b * 2).apply(lambda f: f + 1)
            return [[env.obs(k), env.obs(v.values.tolist())] for k, v in res.items()]
        got = [run(max_workers), run(None)]
        ref = [[names[i], [[vals[i] * 2 + 1], [(vals[i] + 1) * 2 + 1]]] for i in range(n)]
        return got, [ref, ref]
    return Cond(f'batch_pool_n{n}', [('chunksize', 'int'), ('max_workers', 'int')], body, tape=2 * n,
            ranges={'chunksize': (1, 2), 'max_workers': (1, 2)},
            functions=['Batch._apply_pool', 'Batch._apply_attr', 'Batch.apply'],
            bounds=f'Batch of {n} frames (constant cells); chained operator and apply; chunksize 1..2, max_workers 1..2, completion order symbolic ({2 * n} tape Booleans)',
            route='Batch(max_workers=k) chained operations == Batch(max_workers=None) == per-label application', tier=tier, timeout=300)


_add(mk_batch(2))
_add(mk_batch(3, tier='thorough'))


def body_batch_except(env, fail_at, max_workers, **kw):
    from vf import rt
    max_workers = concretize(max_workers, 1, 2)
    fail_at = concretize(fail_at, -1, 2)
    tape = [bool(kw[f'tape{i}']) for i in range(4)]
    return rt.untraced(lambda: run_batch_except(env, fail_at, max_workers, tape))


def run_batch_except(env, fail_at, max_workers, tape):
    sf = env.sf
    if env.model:
        env.nondet.install(tape)
    vals = [7, 14, 21]
    names = ['f0', 'f1', 'f2']
    frames = [sf.Frame.from_items((('a', env.array([vals[i]], 'int64')),), name=names[i]) for i in range(3)]

    def fn(f):
        if not env.model and tape[0] and pooled[0]:
            # real pool: the tape is turned into per-task delays so that earlier tasks COMPLETE after later ones
            import time
            time.sleep(0.05 * (2 - names.index(f.name)))
        if f.name == ('f%d' % fail_at):
            raise TaskError()
        return f * 3
    pooled = [False]

    def run(mw):
        b = sf.Batch.from_frames(frames, max_workers=mw, use_threads=True)
        pooled[0] = mw is not None
        return [[env.obs(k), env.obs(v.values.tolist())] for k, v in b.apply_except(fn, TaskError).items()]
    ref = [[names[i], [[vals[i] * 3]]] for i in range(3) if i != fail_at]
    return [run(max_workers), run(None)], [ref, ref]


_add(Cond('batch_apply_except', [('fail_at', 'int'), ('max_workers', 'int')], body_batch_except, tape=4,
        ranges={'fail_at': (-1, 2), 'max_workers': (1, 2)},
        functions=['Batch._apply_pool_except', 'Batch.apply_except'],
        bounds='Batch of 3 frames, failing task index -1..2, max_workers 1..2, completion order symbolic (4 tape Booleans; on the real pool the tape becomes per-task delays that make earlier tasks complete later)',
        route='Batch.apply_except: the failing label is dropped, every other result stays paired with its own label', timeout=300))


# ---------------------------------------------------------------- _StoreZip.read_many / write through worker pools
# The REAL read_many / write of the zipped-store base class run against an in-memory stand-in for the zip archive (the
# byte-level zip encoding is C / I/O and outside); the per-format decoding is replaced by a probe that reports which
# label, which bytes and which per-label configuration each task was handed.  In the model world the pool is the executor
# contract model (symbolic task order); in the real world a thread pool stands in for the process pool (same map contract).

STORE_LABELS = ('a', 'b', 'c')


def _probe_store(env):
    from static_frame.core import store_zip as sz
    from static_frame.core import store as store_mod

    class FakeZip:
        files = {}

        def __init__(self, fp, mode='r', compression=None):
            self.mode = mode
            if mode == 'w':
                FakeZip.files = {}

        def __enter__(self):
            return self

        def __exit__(self, *a):
            return False

        def read(self, name):
            return FakeZip.files[name]

        def writestr(self, name, data):
            FakeZip.files[name] = data

        def namelist(self):
            return list(FakeZip.files)

    class FakeZipModule:
        ZipFile = FakeZip
        ZIP_DEFLATED = 8

    class FakePath:
        @staticmethod
        def exists(fp):
            return True

        @staticmethod
        def getmtime(fp):
            return 1.0

        @staticmethod
        def splitext(fp):
            import os
            return os.path.splitext(fp)

    class FakeOS:
        path = FakePath

    class ProbeStore(sz._StoreZip):
        _EXT_CONTAINED = '.txt'

        @staticmethod
        def _EXPORTER(frame):
            return frame

        @classmethod
        def _container_type_to_constructor(cls, container_type):
            return str

        @staticmethod
        def _build_frame(src, name, config, constructor):
            return (name, src, config.index_depth)

        @staticmethod
        def _payload_to_bytes(payload):
            return payload.name, (payload.name, payload.frame, payload.config.include_index)
    return sz, store_mod, FakeZipModule, FakeOS, FakeZip, ProbeStore


def mk_store_zip(n_tape=4, tier='quick'):   # 3 write tasks (2 + 1 bits) and 2 read tasks (1 bit)
    def body(env, workers, chunksize, k0, k1, **kw):
        from vf import rt
        workers, chunksize = concretize(workers, 0, 2), concretize(chunksize, 1, 2)
        ks = [concretize(k0, 0, 2), concretize(k1, 0, 2)]
        tape = [bool(kw[f'tape{i}']) for i in range(n_tape)]
        return rt.untraced(lambda: run(env, workers, chunksize, ks, tape))

    def run(env, workers, chunksize, ks, tape):
        sf = env.sf
        from static_frame.core.store import StoreConfig, StoreConfigMap
        sz, store_mod, FakeZipModule, FakeOS, FakeZip, ProbeStore = _probe_store(env)
        if env.model:
            env.nondet.install(tape)
        saved = (sz.zipfile, store_mod.os, sz.ProcessPoolExecutor)
        sz.zipfile, store_mod.os = FakeZipModule, FakeOS
        if not env.model:
            from concurrent.futures import ThreadPoolExecutor
            sz.ProcessPoolExecutor = ThreadPoolExecutor
        try:
            mw = workers if workers else None
            default = StoreConfig(read_max_workers=mw, read_chunksize=chunksize, write_max_workers=mw, write_chunksize=chunksize)
            cfg = StoreConfigMap({l: StoreConfig(index_depth=1 + i, include_index=(i % 2 == 0), read_max_workers=mw, read_chunksize=chunksize,
                                                 write_max_workers=mw, write_chunksize=chunksize) for i, l in enumerate(STORE_LABELS)}, default=default)
            st = ProbeStore('probe.zip')
            # write: every label's payload is built with that label's config and stored under that label
            st.write(((l, 'frame-' + l) for l in STORE_LABELS), config=cfg)
            written = dict(FakeZip.files)
            exp_written = {l + '.txt': (l, 'frame-' + l, i % 2 == 0) for i, l in enumerate(STORE_LABELS)}
            # read: results in request order, each paired with the label, bytes and config of ITS label
            labels = [STORE_LABELS[k] for k in ks]
            got = list(st.read_many(labels, config=cfg))
            exp = [(l, exp_written[l + '.txt'], 1 + STORE_LABELS.index(l)) for l in labels]
            return [env.obs(sorted(written)), [written[k] for k in sorted(written)], got], [sorted(exp_written), [exp_written[k] for k in sorted(exp_written)], exp]
        finally:
            sz.zipfile, store_mod.os, sz.ProcessPoolExecutor = saved
    return Cond('store_zip_read_many_write_workers', [('workers', 'int'), ('chunksize', 'int'), ('k0', 'int'), ('k1', 'int')], body, tape=n_tape,
            ranges={'workers': (0, 2), 'chunksize': (1, 2), 'k0': (0, 2), 'k1': (0, 2)},
            pre=['workers > 0 or not (' + ' or '.join(f'tape{i}' for i in range(n_tape)) + ')'],
            functions=['_StoreZip.read_many', '_StoreZip.write', '_StoreZip._payload_to_frame'],
            bounds=f'zipped-store base class over an in-memory archive of 3 labels with per-label configs; read/write max_workers None or 1..2, chunksize 1..2, 2 requested labels (any order, repeats allowed), task order symbolic ({n_tape} tape Booleans)',
            route='_StoreZip.write / read_many with and without worker pools: every label stored / returned with its own bytes and its own per-label configuration, in request order', tier=tier, timeout=400)


_add(mk_store_zip())
