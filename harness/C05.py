"""C05: hierarchical index: tree and table views agree; per-level selection is exact.

Real functions executed: IndexHierarchy.from_labels / _loc_to_iloc / _extract_iloc / values / __iter__ /
__len__ / __contains__ / values_at_depth, IndexLevel.loc_to_iloc / leaf_loc_to_iloc / values /
label_widths_at_depth / index_array_at_depth, HLoc, IndexHierarchyGO.append / extend,
Series._extract_loc and Frame._extract_loc on a hierarchical index.
Tree shapes are concrete (ragged fan-out, inner labels repeated under different parents); the
per-level SELECTORS are symbolic (which label, which two labels in which order, which slice ends,
which Boolean mask).  Oracle: list comprehension over the tuple list."""
from vf.cond import Cond

CONDS = {}
ASSUMPTIONS = ['labels are ints; the tree shapes are the four listed ones (depth 2, 3, 4; ragged and regular)']
OUTSIDE = ('Boolean masks at outer depths and selectors matching nothing (excluded by the property); datetime levels; trees other than the listed shapes')
TRACES_QUICK = 30

TREE2 = [(0, 10), (0, 11), (1, 10), (1, 12), (2, 11)]
TREE3 = [(0, 5, 10), (0, 5, 11), (0, 6, 10), (1, 5, 12), (1, 7, 10), (1, 7, 11)]
TREEREG = [(o, i) for o in (0, 1) for i in (10, 11, 12)]   # regular: every subtree holds the same inner labels
TREE4 = [(0, 5, 10, 20), (0, 5, 10, 21), (0, 5, 11, 20), (0, 6, 10, 20), (1, 5, 10, 20), (1, 5, 11, 20), (1, 5, 11, 21), (1, 7, 12, 22)]
TREES = {'tree2': TREE2, 'tree3': TREE3, 'treereg': TREEREG, 'tree4': TREE4}


def _add(c):
    CONDS[c.name] = c
    return c


def concretize(v, lo, hi):
    for k in range(lo, hi + 1):
        if v == k:
            return k
    raise AssertionError('out of range')


def level_labels(tuples, depth):
    out = []
    for t in tuples:
        if t[depth] not in out:
            out.append(t[depth])
    return out


def selector(kind, a, b, labels, mask=None):
    """-> (library selector, reference predicate over a label, reference order key or None)"""
    if kind == 'all':
        return slice(None), (lambda l: True), None
    la = labels[concretize(a, 0, len(labels) - 1)]
    if kind == 'label':
        return la, (lambda l: l == la), None
    lb = labels[concretize(b, 0, len(labels) - 1)]
    if kind == 'list':
        return [la, lb], (lambda l: l in (la, lb)), [la, lb]
    if kind == 'slice':
        lo, hi = labels.index(la), labels.index(lb)
        return slice(la, lb), (lambda l: lo <= labels.index(l) <= hi), None
    if kind == 'rslice':
        # label slice with a negative step: from the HIGHER label down to the lower one, both included; the matches of the
        # level come in that (descending) order, as for a list selector
        lo, hi = labels.index(la), labels.index(lb)
        return slice(lb, la, -1), (lambda l: lo <= labels.index(l) <= hi), [labels[i] for i in range(hi, lo - 1, -1)]
    raise AssertionError(kind)


def ref_select(tuples, preds, orders):
    """Positions whose tuple matches every level predicate; index order, except that a list selector
    orders the matches OF ITS LEVEL by the list (outer levels first)."""
    pos = [i for i, t in enumerate(tuples) if all(p(t[d]) for d, p in enumerate(preds))]

    def key(i):
        k = []
        for d, o in enumerate(orders):
            k.append(o.index(tuples[i][d]) if o is not None else 0)
            # within equal list rank, keep the index order of the prefix
            k.append(0)
        return k
    # stable sort by the per-level list ranks, outermost level most significant, but only among
    # positions that share the same selectors of OUTER levels in index order
    if any(o is not None for o in orders):
        # group by outer prefix order: compute rank tuples level by level
        def rank(i):
            r = []
            for d, o in enumerate(orders):
                if o is not None:
                    r.append(o.index(tuples[i][d]))
                else:
                    # index order of that level's label among all labels at this prefix
                    r.append(level_rank[d][tuples[i][:d + 1]])
            return r
        level_rank = []
        for d in range(len(orders)):
            seen = {}
            for t in tuples:
                if t[:d + 1] not in seen:
                    seen[t[:d + 1]] = len(seen)
            level_rank.append(seen)
        pos = sorted(pos, key=rank)
    return pos


def mk_hloc(tree_name, kinds, tier='quick', timeout=300):
    tuples = TREES[tree_name]
    depth = len(tuples[0])

    def body(env, **kw):
        sf = env.sf
        from vf import rt
        ih, s = rt.concrete(('C05', env.model, tree_name), lambda: _mk(env, tuples))
        sels, preds, orders = [], [], []
        for d, kind in enumerate(kinds):
            labels = level_labels(tuples, d)
            if kind == 'mask':
                mask = [kw[f'm{i}'] for i in range(len(tuples))]
                sels.append(env.array(mask, 'bool'))
                preds.append(None)
                orders.append(None)
                continue
            sel, pred, order = selector(kind, kw.get(f'a{d}', 0), kw.get(f'b{d}', 0), labels)
            sels.append(sel); preds.append(pred); orders.append(order)
        if 'mask' in kinds:
            mask = [kw[f'm{i}'] for i in range(len(tuples))]
            # the mask removes positions; the order among the survivors is the one the label selectors give
            pos = [i for i in ref_select(tuples, [(p if p is not None else (lambda l: True)) for p in preds], orders) if mask[i]]
        else:
            pos = ref_select(tuples, preds, orders)
        if not pos:
            return ['outside: nothing matches'], ['outside: nothing matches']
        key = sf.HLoc[tuple(sels)]
        iloc = ih.loc_to_iloc(key)
        if isinstance(iloc, slice):
            got_pos = list(range(*iloc.indices(len(tuples))))
        elif isinstance(iloc, int):
            got_pos = [iloc]
        else:
            got_pos = [env.obs(x) for x in iloc]
        r = s.loc[key]
        if isinstance(r, sf.Series):
            got_vals = env.obs(r.values.tolist())
            got_labels = env.obs([list(t) for t in r.index])
        else:
            got_vals = [env.obs(r)]
            got_labels = [list(tuples[p]) for p in got_pos]
        return [got_pos, got_vals, got_labels], [pos, [100 + p for p in pos], [list(tuples[p]) for p in pos]]
    params = []
    ranges = {}
    pre = []
    for d, kind in enumerate(kinds):
        n = len(level_labels(tuples, d))
        if kind in ('label', 'list', 'slice', 'rslice'):
            params.append((f'a{d}', 'int')); ranges[f'a{d}'] = (0, n - 1)
        if kind in ('list', 'slice', 'rslice'):
            params.append((f'b{d}', 'int')); ranges[f'b{d}'] = (0, n - 1)
        if kind == 'list':
            pre.append(f'a{d} != b{d}')
        if kind in ('slice', 'rslice'):
            pre.append(f'a{d} <= b{d}')
        if kind == 'mask':
            params += [(f'm{i}', 'bool') for i in range(len(tuples))]
    return Cond(f'hloc_{tree_name}_' + '_'.join(kinds), params, body, ranges=ranges, pre=pre,
            functions=['IndexLevel.loc_to_iloc', 'IndexHierarchy._loc_to_iloc'],
            bounds=f'{tree_name} ({len(tuples)} leaves, depth {depth}, ragged, repeated inner labels); selector kinds {kinds} with symbolic contents',
            route='IndexHierarchy.loc_to_iloc(HLoc[...]) and Series.loc[HLoc[...]]: exactly the matching positions, list selectors order their level', tier=tier, timeout=timeout)


def _mk(env, tuples):
    sf = env.sf
    ih = sf.IndexHierarchy.from_labels(tuples)
    s = sf.Series(env.array([100 + i for i in range(len(tuples))], 'int64'), index=ih)
    return ih, s


# NOTE: a label slice at an inner depth is resolved inside each subtree; on a ragged tree an endpoint may be absent from a
# subtree (the library then raises LocInvalid), so inner slices are exercised on the regular tree only.
QUICK = [('label', 'all'), ('all', 'label'), ('list', 'all'), ('label', 'list'), ('slice', 'label'), ('list', 'list'), ('all', 'mask'), ('label', 'label')]
for _k in QUICK:
    _add(mk_hloc('tree2', _k))
_add(mk_hloc('treereg', ('all', 'slice')))
_add(mk_hloc('treereg', ('list', 'slice')))
_add(mk_hloc('treereg', ('all', 'rslice')))
_add(mk_hloc('treereg', ('label', 'rslice')))
_add(mk_hloc('tree3', ('label', 'all', 'label')))
_add(mk_hloc('tree3', ('all', 'list', 'all')))
_add(mk_hloc('tree3', ('slice', 'all', 'mask'), timeout=600))
# depth 4: a multi-target selector at the third level under every outer label (offsets of all ancestors accumulate)
_add(mk_hloc('tree4', ('all', 'all', 'list', 'all'), timeout=400))
_add(mk_hloc('tree4', ('label', 'all', 'all', 'label'), timeout=400))
_add(mk_hloc('tree4', ('all', 'label', 'list', 'label'), timeout=400))
for _k in (('list', 'all', 'all', 'all'), ('all', 'list', 'all', 'label'), ('label', 'label', 'list', 'list'), ('all', 'all', 'all', 'mask'),
           ('list', 'list', 'all', 'all'), ('all', 'all', 'label', 'all'), ('label', 'all', 'list', 'mask')):
    _add(mk_hloc('tree4', _k, tier='thorough', timeout=900))
for _k0 in ('label', 'list', 'slice', 'all'):
    for _k1 in ('label', 'list', 'slice', 'all', 'mask'):
        c = mk_hloc('treereg' if _k1 == 'slice' else 'tree2', (_k0, _k1), tier='thorough', timeout=900)
        if c.name not in CONDS:
            _add(c)
        for _k2 in ('label', 'list', 'all', 'mask'):
            if _k1 in ('mask', 'slice'):
                continue
            c = mk_hloc('tree3', (_k0, _k1, _k2), tier='thorough', timeout=900)
            if c.name not in CONDS:
                _add(c)


# ---------------------------------------------------------------- all views describe the same tuples

def body_views(env, k, po, pi):
    sf = env.sf
    tuples = TREE2
    ih = sf.IndexHierarchy.from_labels(tuples)
    pos = concretize(k, 0, len(tuples) - 1)
    out = [len(ih), ih.depth, env.obs([tuple(t) for t in ih]), env.obs(ih.values.tolist()),
           env.obs(ih.values_at_depth(0).tolist()), env.obs(ih.values_at_depth(1).tolist()),
           env.obs(ih.loc_to_iloc(tuples[pos])), env.obs((po, pi) in ih),
           env.obs(list(ih.iloc[pos])) if False else env.obs(list(ih.values[pos]))]
    exp = [len(tuples), 2, [list(t) for t in tuples], [list(t) for t in tuples], [t[0] for t in tuples], [t[1] for t in tuples],
           pos, (po, pi) in tuples, list(tuples[pos])]
    return out, exp


_add(Cond('hierarchy_views_agree', [('k', 'int'), ('po', 'int'), ('pi', 'int')], body_views, ranges={'k': (0, 4), 'po': (0, 3), 'pi': (9, 13)},
        functions=['IndexHierarchy.values', 'IndexLevel.values_at_depth', 'IndexLevel.leaf_loc_to_iloc'],
        bounds='tree2; probed position symbolic in 0..4, membership probe tuple symbolic (outer 0..3, inner 9..13)',
        route='len / depth / iteration / values / values_at_depth / loc_to_iloc / membership all describe the same tuple sequence', timeout=240))


def body_frame_rows(env, a, b):
    """A Frame indexed hierarchically returns exactly the selected rows."""
    sf = env.sf
    tuples = TREE2
    ih = sf.IndexHierarchy.from_labels(tuples)
    f = sf.Frame.from_items((('x', env.array([100 + i for i in range(5)], 'int64')), ('y', env.array([200 + i for i in range(5)], 'int64'))), index=ih)
    outer = level_labels(tuples, 0)[concretize(a, 0, 2)]
    inner = level_labels(tuples, 1)[concretize(b, 0, 2)]
    pos = [i for i, t in enumerate(tuples) if t[0] == outer]
    r = f.loc[sf.HLoc[outer]]
    out = [env.obs([list(t) for t in r.index]) if r.index.depth > 1 else env.obs(r.index.values.tolist()), env.obs(r.values.tolist())]
    exp = [[list(tuples[p]) for p in pos], [[100 + p, 200 + p] for p in pos]]
    full = (outer, inner)
    try:
        e = f.loc[full, 'y']
        out.append(env.obs(e))
    except KeyError:
        out.append('KeyError')
    exp.append(200 + tuples.index(full) if full in tuples else 'KeyError')
    return out, exp


_add(Cond('frame_hierarchical_rows', [('a', 'int'), ('b', 'int')], body_frame_rows, ranges={'a': (0, 2), 'b': (0, 2)},
        functions=['Frame._extract_loc' if False else 'Frame._compound_loc_to_iloc', 'IndexHierarchy._extract_iloc'],
        bounds='5-row frame on tree2; outer label and inner label symbolic among the held labels',
        route='Frame.loc[HLoc[outer]] returns that subtree; Frame.loc[(outer, inner), col] returns the single cell or raises', timeout=240))


# ---------------------------------------------------------------- grow-only hierarchy: every view in step after every growth

def body_go_growth(env, read, how, o, i, o2, i2):
    """IndexHierarchyGO from tree2, optionally read (cached arrays materialised), then grown by append (one tuple) or
    extend (two tuples); every view of the grown index AND of the containers built from it right after the growth
    (no read in between) must describe the same tuple sequence."""
    from vf import rt
    read, how = bool(read), concretize(how, 0, 1)
    o, i, o2, i2 = concretize(o, 0, 3), concretize(i, 10, 13), concretize(o2, 0, 3), concretize(i2, 10, 13)

    def views(ix, tuples):
        got = [len(ix), env.obs([list(t) for t in ix]), env.obs(ix.values.tolist()), env.obs(ix.values_at_depth(0).tolist()),
               env.obs(ix.values_at_depth(1).tolist()), [env.obs(ix.loc_to_iloc(t)) for t in tuples], [bool(t in ix) for t in tuples],
               list(ix.shape), env.obs(ix.positions.tolist())]
        exp = [len(tuples), [list(t) for t in tuples], [list(t) for t in tuples], [t[0] for t in tuples], [t[1] for t in tuples],
               list(range(len(tuples))), [True] * len(tuples), [len(tuples), 2], list(range(len(tuples)))]
        return got, exp

    def run():
        sf = env.sf
        from static_frame.core.exception import ErrorInitIndex
        tuples = list(TREE2)
        g = sf.IndexHierarchyGO.from_labels(tuples)
        if read:
            _ = g.values
            _ = g.values_at_depth(1)
        new = [(o, i)] if how == 0 else [(o, i), (o2, i2)]
        # duplicates MUST be rejected.  A tuple under an outer label that is held but is not the LAST one cannot be stored
        # (the tree keeps the leaves of an outer label together and outer labels are unique): the library may refuse it, and
        # extend refuses every outer label it already holds; what it may never do is accept and then present other tuples.
        dup = any(t in tuples for t in new) or len(set(new)) != len(new)
        try:
            if how == 0:
                g.append(new[0])
            else:
                g.extend(sf.IndexHierarchy.from_labels(new))
            accepted = True
        except (ErrorInitIndex, KeyError, RuntimeError, ValueError):
            accepted = False
        if accepted:
            tuples = tuples + new
        last_outer = TREE2[-1][0]
        must_accept = (not dup) and all(t[0] not in [x[0] for x in TREE2] for t in new) and (how == 0 or new[0][0] != new[1][0] or True)
        if how == 0 and not dup and new[0][0] == last_outer:
            must_accept = True
        derived = [sf.IndexHierarchy(g), g.rename('r'), sf.Series(env.array(list(range(len(g))), 'int64'), index=g).index, g.copy()]
        # accepted is pinned where the answer is forced: duplicates are refused, brand-new outer labels / the last subtree are taken
        got = [accepted if (dup or must_accept) else 'either']
        exp = [False if dup else (True if must_accept else 'either')]
        for ix in derived + [g]:
            a, b = views(ix, tuples)
            got.append(a); exp.append(b)
        return got, exp
    return rt.untraced(run)


def _mk_growth(tag, ranges, tier, timeout):
    return Cond('hierarchy_go_growth_views' + tag, [('read', 'bool'), ('how', 'int'), ('o', 'int'), ('i', 'int'), ('o2', 'int'), ('i2', 'int')], body_go_growth,
        ranges=ranges, pre=[f"how == 1 or (o2 == {ranges['o2'][0]} and i2 == {ranges['i2'][0]})"],
        functions=['IndexHierarchyGO.append', 'IndexHierarchyGO.extend', 'IndexHierarchy._update_array_cache'],
        bounds=f'IndexHierarchyGO on tree2; symbolic: cached arrays materialised before the growth or not, append of one tuple or extend by two, the new tuples (ranges {ranges}: new leaf, new outer label, held non-terminal outer label, duplicate of a held tuple, duplicate inside the call)',
        route='after the growth: len / iteration / values / values_at_depth / loc_to_iloc / membership / positions agree, for the grown index and for IndexHierarchy(g), g.rename(), Series(index=g).index, g.copy() taken right after', tier=tier, timeout=timeout)


_add(_mk_growth('', {'how': (0, 1), 'o': (0, 3), 'i': (10, 13), 'o2': (2, 3), 'i2': (10, 11)}, 'quick', 400))
_add(_mk_growth('_wide', {'how': (0, 1), 'o': (0, 3), 'i': (10, 13), 'o2': (0, 3), 'i2': (10, 13)}, 'thorough', 1500))



# ---------------------------------------------------------------- depth-3 grow-only hierarchy: histories of two appends with reads in between

APPEND_CHOICES = (('b', 'x', 3), ('b', 'y', 1), ('c', 'x', 1), ('b', 'x', 1), ('a', 'x', 9))


def _positions(env, key, n):
    if isinstance(key, slice):
        return list(range(*key.indices(n)))
    if isinstance(key, int):
        return [key]
    return [env.obs(x) for x in key]


def body_go_depth3_history(env, c0, c1, r0, r1):
    """Start [(a,x,1), (a,x,2), (b,x,1), (b,x,2)]; two appends, each drawn from: new innermost label under the last branch,
    new middle label under the last outer label, new outer label, a duplicate, a tuple under a non-terminal outer label;
    optional reads (cached arrays materialised) before each append.  After every step every view agrees with the tuple list."""
    from vf import rt
    picks = [concretize(c0, 0, len(APPEND_CHOICES) - 1), concretize(c1, 0, len(APPEND_CHOICES) - 1)]
    reads = [bool(r0), bool(r1)]

    def run():
        sf = env.sf
        tuples = [('a', 'x', 1), ('a', 'x', 2), ('b', 'x', 1), ('b', 'x', 2)]
        g = sf.IndexHierarchyGO.from_labels(tuples)
        got, exp = [], []

        def views(ix, ts):
            s = sf.Series(env.array(list(range(len(ix))), 'int64'), index=ix)
            return [len(ix), env.obs([list(t) for t in ix]), env.obs(ix.values.tolist()), env.obs(ix.values_at_depth(1).tolist()),
                    [env.obs(ix.loc_to_iloc(t)) for t in ts], [env.obs(s.loc[t]) for t in ts], [bool(t in ix) for t in ts],
                    _positions(env, ix.loc_to_iloc(sf.HLoc[ts[-1][0], ts[-1][1]]), len(ix))]

        def ref(ts):
            n = len(ts)
            last = ts[-1]
            sub = [i for i, t in enumerate(ts) if t[0] == last[0] and t[1] == last[1]]
            return [n, [list(t) for t in ts], [list(t) for t in ts], [t[1] for t in ts], list(range(n)), list(range(n)), [True] * n, sub]
        for step in range(2):
            if reads[step]:
                _ = g.values
                _ = g.values_at_depth(2)
            new = APPEND_CHOICES[picks[step]]
            dup = new in tuples
            # representable: same branch as the last tuple at the depths that already exist, or a brand-new label at the first new depth
            last = tuples[-1]
            if new[0] == last[0]:
                ok = (new[1] == last[1] and new[2] not in [t[2] for t in tuples if t[:2] == new[:2]]) or (new[1] not in [t[1] for t in tuples if t[0] == new[0]])
            else:
                ok = new[0] not in [t[0] for t in tuples]
            try:
                g.append(new)
                accepted = True
            except (KeyError, RuntimeError, ValueError):
                accepted = False
            got.append(accepted if (dup or ok) else 'either')
            exp.append(False if dup else (True if ok else 'either'))
            if accepted:
                tuples = tuples + [new]
            got.append(views(g, tuples)); exp.append(ref(tuples))
        return got, exp
    return rt.untraced(run)


_add(Cond('hierarchy_go_depth3_append_history', [('c0', 'int'), ('c1', 'int'), ('r0', 'bool'), ('r1', 'bool')], body_go_depth3_history,
        ranges={'c0': (0, len(APPEND_CHOICES) - 1), 'c1': (0, len(APPEND_CHOICES) - 1)},
        functions=['IndexLevelGO.append', 'IndexHierarchyGO.append'],
        bounds=f'depth-3 IndexHierarchyGO of 4 leaves; two appends, each symbolic over {APPEND_CHOICES} (new leaf / new middle label / new outer label / duplicate / under a non-terminal label); cached arrays read or not before each append',
        route='after every append: len / iteration / values / values_at_depth / loc_to_iloc and Series lookup of every tuple / membership / HLoc of the last branch agree with the tuple list; duplicates are refused', timeout=400))
