"""C02: Index: unique labels, exact label-to-position bijection.

Real functions executed: Index.__init__ / _extract_labels / _extract_positions / _loc_to_iloc /
loc_to_iloc / __contains__ / __len__ / __iter__ / __reversed__ / values / _extract_iloc /
_drop_iloc / relabel / roll / sort / union / intersection / difference, LocMap.loc_to_iloc,
_IndexGOMixin.append / extend / _update_array_cache, IndexHierarchy.from_labels / __init__ /
_loc_to_iloc / __iter__ / __len__ / values, IndexHierarchyGO.append, IndexLevel.* they call.
Label VALUES are the symbolic inputs (unbounded ints).  Oracle: a Python list."""
from vf.cond import Cond

CONDS = {}
ASSUMPTIONS = ['labels are ints (unbounded, symbolic) or small tuples of ints; no NaN labels (excluded by the property)']
OUTSIDE = ('datetime units other than D / M and non-ISO date strings (parsed by NumPy C code); labels beyond the stated '
           'pools for non-int kinds; real automap hashing (contract stub); index sizes beyond 4; hierarchy depth > 3')
TRACES_QUICK = 20


def _add(c):
    CONDS[c.name] = c
    return c


def _conc(v, lo, hi):
    for k in range(lo, hi + 1):
        if v == k:
            return k
    raise AssertionError('out of range')


def distinct(labels):
    for i in range(len(labels)):
        for j in range(i + 1, len(labels)):
            if labels[i] == labels[j]:
                return False
    return True


def view(env, idx, labels, probe):
    """All read routes of an index, as plain data."""
    from static_frame.core.exception import LocInvalid
    out = [len(idx), env.obs(list(idx)), env.obs(list(reversed(idx))), env.obs(idx.values.tolist()),
           env.obs(idx.positions.tolist())]
    locs = []
    for l in labels:
        locs.append(env.obs(idx.loc_to_iloc(l)))
    out.append(locs)
    out.append([env.obs(l in idx) for l in labels])
    out.append(env.obs(probe in idx))
    try:
        out.append(env.obs(idx.loc_to_iloc(probe)))
    except (KeyError, LocInvalid):
        out.append('KeyError')
    return out


def ref_view(labels, probe):
    n = len(labels)
    return [n, list(labels), list(reversed(labels)), list(labels), list(range(n)), list(range(n)), [True] * n,
            probe in labels, labels.index(probe) if probe in labels else 'KeyError']


def mk_index(n, go):
    def body(env, probe, **kw):
        sf = env.sf
        from static_frame.core.exception import ErrorInitIndexNonUnique
        labels = [kw[f'l{i}'] for i in range(n)]
        cls = sf.IndexGO if go else sf.Index
        try:
            idx = cls(labels)
        except ErrorInitIndexNonUnique:
            return ['rejected'], (['rejected'] if not distinct(labels) else ['accepted'])
        if not distinct(labels):
            return ['accepted'], ['rejected']
        return view(env, idx, labels, probe), ref_view(labels, probe)
    return Cond(f'index_bijection_n{n}_{"go" if go else "static"}', [(f'l{i}', 'int') for i in range(n)] + [('probe', 'int')], body,
            functions=['Index.__init__', 'Index._loc_to_iloc', 'LocMap.loc_to_iloc', 'Index.__contains__'],
            bounds=f'{n} labels and a probe key, all UNBOUNDED symbolic ints (duplicates must be rejected, absent probe must raise)',
            route=f'{"IndexGO" if go else "Index"}(labels): len / iter / reversed / values / positions / loc_to_iloc / in')


_add(mk_index(3, False))
_add(mk_index(3, True))
_add(mk_index(4, False)).tier = 'thorough'


# ---- grow-only history: appends / extends, caches materialised in between

def mk_go_history(auto, read0, read1, tier='quick'):
    def body(env, a, b, afloat=False, c=55, probe=99):
        from vf import rt
        lo, hi = ((-1, 4) if auto else (9, 56))
        a, b, afloat = _conc(a, lo, 21 if not auto else hi), _conc(b, lo, hi), bool(afloat)   # extend() hashes labels: split by value, run concretely
        return rt.untraced(lambda: run(env, a, b, afloat, c, probe))

    def run(env, a, b, afloat, c, probe):
        from vf import rt
        sf = env.sf
        if auto:
            idx = rt.untraced(lambda: sf.IndexGO(range(2), loc_is_iloc=True))
            labels = [0, 1]
        else:
            idx = rt.untraced(lambda: sf.IndexGO([10, 20]))
            labels = [10, 20]
        trace = []
        exp = []
        steps = [('append', a), ('extend', [b, c])]
        for si, (kind, v) in enumerate(steps):
            if (si == 0 and read0) or (si == 1 and read1):
                trace.append(env.obs(idx.values.tolist()))   # materialise caches before growing again
                exp.append(list(labels))
            if si == 0 and auto and afloat:
                v = 2.0   # a float label numerically equal to the next position must NOT keep the index map-less
            try:
                if kind == 'append':
                    idx.append(v)
                else:
                    idx.extend(v)
                ok = True
            except KeyError:
                ok = False
            # reference: an append of a held label is rejected; an extend is all-or-nothing
            if kind == 'append':
                ref_ok = v not in labels
                if ref_ok:
                    labels.append(v)
            else:
                # all-or-nothing: any label already held, or repeated inside the call, rejects the whole call
                ref_ok = all(x not in labels for x in v) and all(v[i] != v[j] for i in range(len(v)) for j in range(i + 1, len(v)))
                if ref_ok:
                    labels.extend(v)
            trace.append(ok)
            exp.append(ref_ok)
            trace.append(view(env, idx, labels, probe))
            exp.append(ref_view(labels, probe))
        return trace, exp
    return Cond(f'indexgo_history_{"auto" if auto else "labels"}_r{int(read0)}{int(read1)}',
            [('a', 'int'), ('b', 'int')] + ([('afloat', 'bool')] if auto else []), body, tier=tier,
            ranges=({'a': (-1, 4), 'b': (-1, 4)} if auto else {'a': (9, 21), 'b': (9, 56)}),   # extend() hashes its labels (set): bounded
            functions=['_IndexGOMixin.append', '_IndexGOMixin.extend', '_IndexGOMixin._update_array_cache', 'Index._loc_to_iloc'],
            bounds=('IndexGO of 2 labels (' + ('auto-integer, map-less' if auto else 'explicit') + '); history append(a), extend([b, 55]) with a, b symbolic in a small range around the held labels (absent probe 99 fixed); '
                    f'.values read before 1st/2nd append: {read0}/{read1}' + ('; symbolic choice that the first appended label is the float 2.0' if auto else '')),
            route='IndexGO.append / extend with reads in between; every read route after every step', timeout=240)


for _r0, _r1, _t in ((True, True, 'quick'), (False, False, 'quick'), (True, False, 'thorough'), (False, True, 'thorough')):
    _add(mk_go_history(False, _r0, _r1, _t))
    _add(mk_go_history(True, _r0, _r1, _t))


def body_auto_negative(env, probe):
    sf = env.sf
    idx = sf.IndexGO(range(3), loc_is_iloc=True)
    return view(env, idx, [0, 1, 2], probe), ref_view([0, 1, 2], probe)


_add(Cond('index_auto_negative_probe', [('probe', 'int')], body_auto_negative, pre=['probe < 0'],
        functions=['Index._loc_to_iloc'],
        bounds='map-less auto-integer IndexGO of 3; probe an UNBOUNDED negative symbolic int (never a held label: must raise)',
        route='IndexGO(range(3), loc_is_iloc=True).loc_to_iloc(negative int)'))


# ---- derived indices re-satisfy the bijection

def mk_derived(what):
    def body_derived(env, l0, l1, l2, k, probe):
        sf = env.sf
        labels = [l0, l1, l2]
        idx = sf.Index(env.array(labels, 'int64'))   # typed array: a plain list would add one magnitude fork per label
        if what == 'drop':
            pos = None
            for i in range(3):
                if k == i:
                    pos = i
            d = idx._drop_iloc(pos)
            dl = [l for i, l in enumerate(labels) if i != pos]
        elif what == 'roll':
            s_ = None
            for i in range(-3, 4):
                if k == i:
                    s_ = i
            d = idx.roll(s_)
            dl = [labels[(i - s_) % 3] for i in range(3)]
        elif what == 'sort':
            asc = k >= 0
            d = idx.sort(ascending=asc)
            dl = sorted(labels) if asc else sorted(labels)[::-1]
        else:
            d = idx.iloc[[2, 0]]
            dl = [l2, l0]
        return view(env, d, dl, probe), ref_view(dl, probe)
    return Cond(f'index_derived_{what}', [('l0', 'int'), ('l1', 'int'), ('l2', 'int'), ('k', 'int'), ('probe', 'int')], body_derived,
        ranges={'k': (0, 2) if what == 'drop' else (-3, 3)}, pre=['l0 != l1', 'l0 != l2', 'l1 != l2'],
        functions={'drop': ['Index._drop_iloc'], 'roll': ['Index.roll'], 'sort': ['Index.sort'], 'iloc': ['Index._extract_iloc']}[what],
        bounds='3 distinct UNBOUNDED symbolic int labels and probe; dropped position in 0..2 / roll shift in -3..3 / sort direction symbolic',
        route=f'Index {what} then every read route', timeout=150)


for _w in ('drop', 'roll', 'sort', 'iloc'):
    _add(mk_derived(_w))


def mk_setop(opname):
    def body_setops(env, a0, a1, b0, b1, probe=2):
        sf = env.sf
        a, b = [a0, a1], [b0, b1]
        ia, ib = sf.Index(a), sf.Index(b)
        ref = {'union': sorted(set(a) | set(b)), 'intersection': sorted(set(a) & set(b)),
               'difference': sorted(set(a) - set(b))}[opname]
        r = getattr(ia, opname)(ib)
        got = env.obs(r.values.tolist())
        out, exp = [], []
        # identical operands keep their order; otherwise the result is the set, each label once
        if a == b:
            out.append(got); exp.append(a if opname != 'difference' else [])
        else:
            out.append(sorted(got)); exp.append(ref)
        out.append(view(env, r, got, probe)[:7]); exp.append(ref_view(got, probe)[:7])
        return out, exp
    return Cond(f'index_set_{opname}', [('a0', 'int'), ('a1', 'int'), ('b0', 'int'), ('b1', 'int')], body_setops,
        ranges={p: (0, 3) for p in ('a0', 'a1', 'b0', 'b1')}, pre=['a0 != a1', 'b0 != b1'],
        functions=['Index._ufunc_set', '_ufunc_set_1d'],
        bounds='two indices of 2 distinct labels each, labels symbolic in 0..3 (the oracle uses Python sets, which hash); probe fixed',
        route=f'Index.{opname}; result is duplicate-free and a bijection', timeout=150)


for _o in ('union', 'intersection', 'difference'):
    _add(mk_setop(_o))


# ---- hierarchical: tree check, bijection over tuples, grow-only history with stale-cache derivation

def is_tree_order(tuples):
    """Depth-2 label sets are a tree in the given order iff no outer label re-appears after a different one."""
    seen, last = [], None
    for o, _ in tuples:
        if o != last:
            if o in seen:
                return False
            seen.append(o)
            last = o
    return True


def hview(env, ih, tuples, probe):
    out = [len(ih), env.obs([tuple(t) for t in ih]), env.obs([tuple(r) for r in ih.values.tolist()]), ih.depth]
    out.append([env.obs(ih.loc_to_iloc(t)) for t in tuples])
    out.append([env.obs(t in ih) for t in tuples])
    out.append(env.obs(probe in ih))
    return out


def ref_hview(tuples, probe):
    n = len(tuples)
    return [n, [list(t) for t in tuples], [list(t) for t in tuples], 2, list(range(n)), [True] * n, probe in tuples]


def body_ih(env, o0, o1, i0, i1, o2=1, i2=5, po=1, pi=4):
    sf = env.sf
    from static_frame.core.exception import ErrorInitIndex
    tuples = [(o0, i0), (o1, i1), (o2, i2)]
    ok = distinct(tuples) and is_tree_order(tuples)
    try:
        ih = sf.IndexHierarchy.from_labels(tuples)
    except ErrorInitIndex:
        return ['rejected'], ['accepted' if ok else 'rejected']
    if not ok:
        return ['accepted'], ['rejected']
    return hview(env, ih, tuples, (po, pi)), ref_hview(tuples, (po, pi))


_add(Cond('hierarchy_from_labels', [(p, 'int') for p in ('o0', 'o1', 'i0', 'i1')], body_ih,
        ranges={'o0': (0, 1), 'o1': (0, 1), 'i0': (4, 5), 'i1': (4, 5)},
        functions=['IndexHierarchy.from_labels', 'IndexHierarchy._loc_to_iloc', 'IndexLevel.leaf_loc_to_iloc'],
        bounds='3 depth-2 label tuples (o0,i0), (o1,i1), (1,5): outer labels symbolic in 0..1, inner in 4..5 (from_labels hashes labels: the solver enumerates); duplicates and non-tree orders must be rejected',
        route='IndexHierarchy.from_labels: len / iter / values / loc_to_iloc / in', timeout=240))
_add(Cond('hierarchy_from_labels_3', [(p, 'int') for p in ('o0', 'o1', 'o2', 'i0', 'i1', 'i2')], body_ih,
        ranges={'o0': (0, 1), 'o1': (0, 1), 'o2': (0, 1), 'i0': (4, 6), 'i1': (4, 6), 'i2': (4, 6)},
        functions=['IndexHierarchy.from_labels'], tier='thorough', timeout=1800,
        bounds='3 depth-2 label tuples: outer labels symbolic in 0..1, inner in 4..6',
        route='IndexHierarchy.from_labels: len / iter / values / loc_to_iloc / in'))


def mk_ihgo(read, how, tier='quick'):
    def body_ihgo(env, a, b):
        from vf import rt
        a, b = _conc(a, 9, 11), _conc(b, 9, 11)
        return rt.untraced(lambda: run_ihgo(env, a, b))

    def run_ihgo(env, a, b):
        sf = env.sf
        tuples = [(1, 10), (1, 11), (2, 10)]
        g = sf.IndexHierarchyGO.from_labels(list(tuples))
        out, exp = [], []
        if read:
            out.append(env.obs([tuple(r) for r in g.values.tolist()])); exp.append([list(t) for t in tuples])
        new = (2, a)
        try:
            g.append(new)
            ok = True
        except Exception:  # noqa: BLE001  (duplicate leaf)
            ok = False
        ref_ok = new not in tuples
        if ref_ok:
            tuples.append(new)
        out.append(ok); exp.append(ref_ok)
        # a static index derived right AFTER the growth (before anything refreshes g's caches) must see
        # the grown labels through every route
        if how == 0:
            d = sf.IndexHierarchy(g)
        elif how == 1:
            d = g.rename('x')
        else:
            d = g.copy()
        out.append(hview(env, d, tuples, (2, b))); exp.append(ref_hview(tuples, (2, b)))
        out.append(hview(env, g, tuples, (2, b))); exp.append(ref_hview(tuples, (2, b)))
        return out, exp
    return Cond(f'hierarchy_go_append_derive_r{int(read)}_h{how}', [('a', 'int'), ('b', 'int')], body_ihgo, ranges={'a': (9, 11), 'b': (9, 11)},
        functions=['IndexHierarchyGO.append', 'IndexHierarchy.__init__', 'IndexHierarchy._update_array_cache'],
        bounds=f'IndexHierarchyGO of 3 leaves; appended inner label and probe symbolic in 9..11 (duplicate leaf / inner label repeated under another parent / new); .values read before the append: {read}; derivation route {("constructor", "rename", "copy")[how]}',
        route='IndexHierarchyGO.append then IndexHierarchy(g) | g.rename | g.copy: every read route agrees with the list', timeout=240, tier=tier)


for _read in (True, False):
    for _how in (0, 1, 2):
        _add(mk_ihgo(_read, _how, 'quick' if (_read and _how in (0, 1)) or (not _read and _how == 2) else 'thorough'))


# ---------------------------------------------------------------- label KINDS symbolic: ints, floats, strings, tuples, None in one index

POOL = (1, 2.5, 'a', (1, 2), None, 2)


def body_label_kinds(env, p0, p1, p2, p3, go):
    from vf import rt
    ps = [_conc(v, 0, len(POOL) - 1) for v in (p0, p1, p2)] + [_conc(p3, 0, 2)]
    go = bool(go)

    def run():
        sf = env.sf
        from static_frame.core.exception import ErrorInitIndex
        labels = [POOL[p] for p in ps[:3]]
        extra = POOL[ps[3]]
        cls = sf.IndexGO if go else sf.Index
        dup = len(set(ps[:3])) < 3
        try:
            idx = cls(labels)
            built = True
        except ErrorInitIndex:
            built = False
        got, exp = [built], [not dup]
        if not built or dup:
            return got, exp

        def views(ix, labs):
            from static_frame.core.exception import LocInvalid
            locs = []
            for probe in POOL:
                try:
                    locs.append(env.obs(ix.loc_to_iloc(probe)))
                except (KeyError, LocInvalid):
                    locs.append('absent')
            return [len(ix), env.obs(list(ix)), env.obs(ix.values.tolist()), env.obs(ix.positions.tolist()), locs, [bool(probe in ix) for probe in POOL]]

        def ref(labs):
            return [len(labs), [env.obs(l) for l in labs], [env.obs(l) for l in labs], list(range(len(labs))),
                    [(labs.index(probe) if probe in labs else 'absent') for probe in POOL], [probe in labs for probe in POOL]]
        got.append(views(idx, labels)); exp.append(ref(labels))
        if go:
            try:
                idx.append(extra)
                appended = True
            except KeyError:
                appended = False
            got.append(appended); exp.append(extra not in labels)
            if appended and extra not in labels:
                labels = labels + [extra]
            got.append(views(idx, labels)); exp.append(ref(labels))
        else:
            # a derived selection keeps the bijection
            sub = idx.iloc[[2, 0]]
            got.append(views(sub, [labels[2], labels[0]])); exp.append(ref([labels[2], labels[0]]))
        return got, exp
    return rt.untraced(run)


_add(Cond('index_label_kinds', [('p0', 'int'), ('p1', 'int'), ('p2', 'int'), ('p3', 'int'), ('go', 'bool')], body_label_kinds,
        ranges={p: (0, len(POOL) - 1) for p in ('p0', 'p1', 'p2')} | {'p3': (0, 2)}, pre=['go or p3 == 0'],
        functions=['Index.__init__', 'Index._loc_to_iloc'],
        bounds=f'Index / IndexGO (symbolic) of 3 labels, each drawn symbolically from the pool {POOL} (repeats = duplicates); for IndexGO one more label (one of the first three pool entries) is appended',
        route='Index of mixed label kinds: duplicates rejected; len / iteration / values / positions / loc_to_iloc / membership of EVERY pool element agree with the list; append accepted iff the label is new', timeout=600))


# ---------------------------------------------------------------- datetime-typed indices: label FORMS, derivation routes, growth

FORM_TRIPLES = ([0, 0, 0], [0, 1, 2], [2, 1, 0], [1, 2, 0], [2, 2, 2])


def body_datetime_index(env, d0, d1, d2, cls_k, go):
    """IndexDate / IndexYearMonth (and grow-only forms) of three labels, each a symbolic period of a pool given in a symbolic
    form (ISO string / datetime.date / datetime64): the same period in two forms is a duplicate; otherwise every read route
    and a lookup of every pool period in every form agree with the list; a derived index (symbolic route) and, for the
    grow-only form, an append keep the bijection."""
    from vf import rt
    import datetime
    ds = [_conc(v, 0, 3) for v in (d0, d1, d2)]
    cls_k, go = _conc(cls_k, 0, 1), bool(go)

    def run():
        got, exp = [], []
        for fs in FORM_TRIPLES:
            for route in range(6):
                if route and (len(set(ds)) < 3 or (fs != FORM_TRIPLES[1] and route not in (4, 5))):
                    continue
                g, e = one(fs, route)
                got.append(g); exp.append(e)
        return got, exp

    def one(fs, route):
        sf = env.sf
        import numpy as real_np   # label values only: concrete datetime64 scalars are NumPy's own objects in both worlds
        from static_frame.core.exception import ErrorInitIndex, LocInvalid
        if cls_k == 0:
            iso = ['2020-01-30', '2020-01-31', '2020-02-01', '2019-12-31']
            cls = sf.IndexDateGO if go else sf.IndexDate
            unit = 'D'
        else:
            iso = ['2020-01', '2020-02', '2019-12', '2021-01']
            cls = sf.IndexYearMonthGO if go else sf.IndexYearMonth
            unit = 'M'

        def form(k, f):
            if f == 0:
                return iso[k]
            if f == 1 and cls_k == 0:
                y, m, d = (int(x) for x in iso[k].split('-'))
                return datetime.date(y, m, d)
            return real_np.datetime64(iso[k], unit)

        def views(ix):
            locs = []
            for k in range(4):
                for f in range(3):
                    try:
                        locs.append(env.obs(ix.loc_to_iloc(form(k, f))))
                    except (KeyError, LocInvalid):
                        locs.append('absent')
            return [len(ix), [str(x) for x in ix], [str(x) for x in reversed(ix)], [str(x) for x in ix.values],
                    env.obs(ix.positions.tolist()), locs, [bool(form(k, 2) in ix) for k in range(4)]]

        def ref(ks):
            labs = [iso[k] for k in ks]
            locs = []
            for k in range(4):
                locs.extend([(ks.index(k) if k in ks else 'absent')] * 3)
            return [len(labs), labs, labs[::-1], labs, list(range(len(labs))), locs, [k in ks for k in range(4)]]
        dup = len(set(ds)) < 3
        try:
            idx = cls([form(k, f) for k, f in zip(ds, fs)])
            built = True
        except ErrorInitIndex:
            built = False
        got, exp = [built], [not dup]
        if not built or dup:
            return got, exp
        got.append(views(idx)); exp.append(ref(ds))
        ks = list(ds)
        if go:
            other = [k for k in range(4) if k not in ds][0]
            for k, accept in ((ds[1], False), (other, True)):
                try:
                    idx.append(form(k, fs[0]))
                    ok = True
                except KeyError:
                    ok = False
                got.append(ok); exp.append(accept)
                if accept:
                    ks = ks + [k]
            got.append(views(idx)); exp.append(ref(ks))
        order = sorted(range(len(ks)), key=lambda i: iso[ks[i]])
        if route == 0:
            der, dks = idx.iloc[[2, 0]], [ks[2], ks[0]]
        elif route == 1:
            der, dks = idx.roll(1), ks[-1:] + ks[:-1]
        elif route == 2:
            der, dks = idx.sort(ascending=False), [ks[i] for i in reversed(order)]
        elif route == 3:
            der, dks = idx.drop.iloc[1], ks[:1] + ks[2:]
        elif route == 4:
            o = cls([form(ks[1], 2), form(3, 0)]) if 3 not in ks[1:2] else cls([form(ks[1], 2)])
            der = idx.union(o)
            dks = sorted(set(ks) | {ks[1], 3}, key=lambda k: iso[k])
            der = der.sort()
        else:
            der = idx.intersection(cls([form(ks[2], fs[1]), form(ks[0], fs[2])])).sort()
            dks = sorted({ks[2], ks[0]}, key=lambda k: iso[k])
        got.append([type(der).__name__, views(der)]); exp.append([cls.__name__, ref(dks)])
        return got, exp
    return rt.untraced(run)


_add(Cond('datetime_index_forms_and_routes', [('d0', 'int'), ('d1', 'int'), ('d2', 'int'), ('cls_k', 'int'), ('go', 'bool')], body_datetime_index,
        ranges={'d0': (0, 3), 'd1': (0, 3), 'd2': (0, 3), 'cls_k': (0, 1)},
        functions=['IndexDatetime.__init__', 'IndexDatetime._loc_to_iloc', '_IndexDatetimeGOMixin.append', 'Index.roll', 'Index.sort', 'Index._drop_iloc', 'Index._ufunc_set'],
        bounds='IndexDate / IndexYearMonth and their grow-only forms (symbolic) of 3 labels, each a symbolic member of a pool of 4 periods; inside each path 5 triples of label forms (ISO string, datetime.date, datetime64) and 6 derivation routes (iloc list, roll, descending sort, drop, union, intersection); grow-only: a duplicate and a new period appended',
        route='datetime-typed indices: the same period in two forms is a duplicate; len / iteration / reversed / values / positions / membership and loc_to_iloc of every pool period in every form agree with the list, also after append and on derived indices (which keep their type)', timeout=600))


# ---------------------------------------------------------------- deeper grow-only hierarchies: append under held / non-terminal labels

def tree_append_ok(tuples, t):
    """Appending t keeps `tuples` a tree in the given order iff t is new and every prefix of t that is already held is a
    prefix of the LAST tuple (the labels with that prefix stay contiguous)."""
    if t in tuples:
        return False
    for k in range(1, len(t)):
        if any(u[:k] == t[:k] for u in tuples) and tuples[-1][:k] != t[:k]:
            return False
    return True


def body_ihgo_deep(env, depth, o, m, l, l2, read):
    from vf import rt
    depth, o, m, l, l2, read = _conc(depth, 3, 4), _conc(o, 0, 2), _conc(m, 0, 2), _conc(l, 0, 1), _conc(l2, 0, 1), bool(read)

    def run():
        sf = env.sf
        O, M = 'abc', 'xyz'
        if depth == 3:
            tuples = [('a', 'x', 0), ('a', 'y', 0), ('b', 'x', 0), ('b', 'y', 0)]
            t = (O[o], M[m], l)
        else:
            tuples = [('a', 'x', 0, 0), ('a', 'y', 0, 0), ('b', 'x', 0, 0), ('b', 'x', 1, 0), ('b', 'y', 0, 0)]
            t = (O[o], M[m], l, l2)
        g = sf.IndexHierarchyGO.from_labels(list(tuples))
        if read:
            _ = g.values
        try:
            g.append(t)
            ok = True
        except Exception:  # noqa: BLE001  (duplicate leaf, or a label held at a non-terminal position)
            ok = False
        ref_ok = tree_append_ok(tuples, t)
        if ref_ok:
            tuples = tuples + [t]
        pool = [(a, b, c) + ((d,) if depth == 4 else ()) for a in O for b in M for c in (0, 1) for d in ((0, 1) if depth == 4 else (0,))]

        def views(ix):
            locs = []
            for p in pool:
                try:
                    locs.append(env.obs(ix.loc_to_iloc(p)))
                except KeyError:
                    locs.append('absent')
            return [len(ix), ix.depth, env.obs([tuple(x) for x in ix]), env.obs([tuple(r) for r in ix.values.tolist()]), locs, [bool(p in ix) for p in pool]]

        def ref():
            return [len(tuples), depth, [list(u) for u in tuples], [list(u) for u in tuples], [(tuples.index(p) if p in tuples else 'absent') for p in pool], [p in tuples for p in pool]]
        got, exp = [ok, views(g), views(sf.IndexHierarchy(g))], [ref_ok, ref(), ref()]
        return got, exp
    return rt.untraced(run)


_add(Cond('hierarchy_go_deep_append', [('depth', 'int'), ('o', 'int'), ('m', 'int'), ('l', 'int'), ('l2', 'int'), ('read', 'bool')], body_ihgo_deep,
        ranges={'depth': (3, 4), 'o': (0, 2), 'm': (0, 2), 'l': (0, 1), 'l2': (0, 1)}, pre=['depth == 4 or l2 == 0'],
        functions=['IndexHierarchyGO.append', 'IndexLevelGO.append', 'IndexLevel.leaf_loc_to_iloc', 'IndexHierarchy._update_array_cache'],
        bounds='IndexHierarchyGO of depth 3 or 4 (symbolic) over a 4-5 leaf tree; the appended tuple has every level symbolic in a pool of 3 / 3 / 2 / 2 labels (new, duplicate, held under the last parent, held under an earlier parent at any depth); arrays read before the append or not',
        route='IndexHierarchyGO.append: accepted iff the tuple is new and every held prefix is a prefix of the last tuple, else raises and nothing changes; afterwards len / depth / iteration / values / membership and loc_to_iloc of EVERY pool tuple agree with the list, on the index and on a static copy', timeout=400))
