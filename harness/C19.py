"""C19: Quilt and Batch are faithful views over the Frames they hold.

Quilt: the real AxisMap.from_bus, Quilt.__init__ / _update_axis_labels / _extract / _extract_array /
shape / index / columns / iter_array / to_frame over a Bus of two loaded 2x2 Frames; symbolic iloc keys
on the quilt axis (int / slice / 2-entry list) and on the opposite axis; both axes; retain_labels on
and off.  Oracle: the same selection on the list-of-rows concatenation of the members (computed by the
list reference, not by static-frame).
Batch: Batch.__init__ / _apply_attr / apply / items / to_frame pairing label <-> result."""
from vf.cond import Cond
from vf.refmodels import obs_container, ref_frame_select, ref_slice_positions

CONDS = {}
ASSUMPTIONS = ['member frames are loaded (no store); cells concrete and distinct, keys symbolic; Batch cells symbolic']
OUTSIDE = ('Quilt windows and export; stores behind the Bus and max_persist interplay (C17 covers the Bus side); more than 2 member frames (3 in thorough)')
TRACES_QUICK = 24


def _add(c):
    CONDS[c.name] = c
    return c


def concretize(v, lo, hi):
    for k in range(lo, hi + 1):
        if v == k:
            return k
    raise AssertionError('out of range')


def mk_quilt(env, axis, retain):
    sf = env.sf
    # two members; opposite-axis labels aligned; quilt-axis labels unique across members
    if axis == 0:
        f1 = sf.Frame.from_records([[100, 101], [110, 111]], index=[1, 2], columns=['a', 'b'], name='p')
        f2 = sf.Frame.from_records([[200, 201], [210, 211]], index=[3, 4], columns=['a', 'b'], name='q')
        rows = [[100, 101], [110, 111], [200, 201], [210, 211]]
        index = [['p', 1], ['p', 2], ['q', 3], ['q', 4]] if retain else [1, 2, 3, 4]
        columns = ['a', 'b']
    else:
        f1 = sf.Frame.from_records([[100, 101], [110, 111]], index=['a', 'b'], columns=[1, 2], name='p')
        f2 = sf.Frame.from_records([[200, 201], [210, 211]], index=['a', 'b'], columns=[3, 4], name='q')
        rows = [[100, 101, 200, 201], [110, 111, 210, 211]]
        index = ['a', 'b']
        columns = [['p', 1], ['p', 2], ['q', 3], ['q', 4]] if retain else [1, 2, 3, 4]
    bus = sf.Bus.from_frames((f1, f2))
    q = sf.Quilt(bus, axis=axis, retain_labels=retain)
    return q, rows, index, columns


def obs_any(env, x):
    sf = env.sf
    o = obs_container(env, x)
    # hierarchical labels come back as arrays of tuples / 2-d values: normalise to lists
    def norm(labels):
        return [list(l) if isinstance(l, (list, tuple)) else l for l in labels]
    if o[0] == 'F':
        idx = [list(t) for t in x.index] if x.index.depth > 1 else o[1]
        cols = [list(t) for t in x.columns] if x.columns.depth > 1 else o[2]
        return ['F', env.obs(idx), env.obs(cols), o[3]]
    if o[0] == 'S':
        idx = [list(t) for t in x.index] if x.index.depth > 1 else o[1]
        name = list(o[3]) if isinstance(o[3], (tuple, list)) else o[3]
        return ['S', env.obs(idx), o[2], name]
    return o


def mk_sel(axis, retain, keykind, tier='quick', finding=False):
    # finding=True: the region of known findings F21 (empty slice) / F22 (descending list), isolated from the main condition
    def body(env, a, b, o):
        from vf import rt
        # keys are split by value up front (slice ends in -5..5 or None), then everything runs concretely
        a = None if a is None else concretize(a, -5, 5)
        b = None if b is None else concretize(b, -5, 5)
        o = concretize(o, 0, 2)
        return rt.untraced(lambda: run(env, a, b, o))

    def run(env, a, b, o):
        sf = env.sf
        from vf import rt
        # a Quilt fills internal caches on first use: build a fresh one on every path
        q, rows, index, columns = mk_quilt(env, axis, retain)
        if keykind == 'int':
            qk = a
        elif keykind == 'slice':
            qk = slice(a, b)
        else:
            qk = [a, b]
        ok = None if o == 2 else o     # opposite-axis key: position 0, 1 or everything
        rk, ck = (qk, ok) if axis == 0 else (ok, qk)
        try:
            exp = ref_frame_select(rows, index, columns, rk, ck)
        except IndexError:
            exp = ['raises', 'IndexError']
        try:
            if rk is None:
                r = q.iloc[:, ck]
            elif ck is None:
                r = q.iloc[rk]
            else:
                r = q.iloc[rk, ck]
            got = obs_any(env, r)
        except IndexError:
            got = ['raises', 'IndexError']
        return got, exp
    params = [('a', 'oint' if keykind == 'slice' else 'int'), ('b', 'oint' if keykind == 'slice' else 'int'), ('o', 'int')]
    ranges = {'o': (0, 2), 'a': (-5, 5), 'b': (-5, 5)}
    pre = []
    if keykind == 'list':
        ranges.update({'a': (0, 3), 'b': (0, 3)}); pre.append('a > b' if finding else 'a < b')
    if keykind == 'slice':
        pre.append('not _rt.slice_nonempty(a, b, None, 4)' if finding else '_rt.slice_nonempty(a, b, None, 4)')
    if keykind == 'int':
        ranges['b'] = (0, 0)
    return Cond(f'quilt_axis{axis}_{"retain" if retain else "plain"}_{keykind}' + ('_finding' if finding else ''), params, body, ranges=ranges, pre=pre,
            functions=['Quilt._extract', 'AxisMap.from_bus' if False else 'Quilt._update_axis_labels'],
            bounds=f'Quilt over 2 frames of 2x2 along axis {axis}, retain_labels={retain}; quilt-axis key kind {keykind} with symbolic contents (int / slice ends in -5..5 or None; list entries 0..3), opposite-axis key symbolic (0, 1 or all); split by value, then concrete',
            route='Quilt.iloc[...] == the same selection on the concatenation of the member frames', tier=tier, timeout=300)


for _axis, _ret, _kind in ((0, True, 'int'), (0, False, 'slice'), (0, True, 'slice'), (0, False, 'list'), (1, True, 'slice'), (1, False, 'int'), (1, True, 'list')):
    _add(mk_sel(_axis, _ret, _kind))
_add(mk_sel(0, False, 'slice', finding=True))
_add(mk_sel(1, True, 'list', finding=True))
for _axis in (0, 1):
    for _ret in (True, False):
        for _kind in ('int', 'slice', 'list'):
            c = mk_sel(_axis, _ret, _kind, tier='thorough')
            if c.name not in CONDS:
                _add(c)


def body_quilt_shape(env, axis_flag, retain):
    sf = env.sf
    axis = 1 if axis_flag else 0
    q, rows, index, columns = mk_quilt(env, axis, bool(retain))
    idx = [list(t) for t in q.index] if q.index.depth > 1 else q.index.values.tolist()
    cols = [list(t) for t in q.columns] if q.columns.depth > 1 else q.columns.values.tolist()
    got = [list(q.shape), env.obs(idx), env.obs(cols), env.obs(q.to_frame().values.tolist()),
           # iteration is offered along the Quilt axis only (the other raises NotImplementedAxis: documented limitation)
           [env.obs(a.tolist()) for a in q.iter_array(axis=1 - axis)]]
    lines = rows if axis == 0 else [[rows[r][c] for r in range(len(rows))] for c in range(len(rows[0]))]
    exp = [[len(rows), len(rows[0])], index, columns, rows, lines]
    return got, exp


_add(Cond('quilt_shape_labels_iter', [('axis_flag', 'bool'), ('retain', 'bool')], body_quilt_shape,
        functions=['Quilt.to_frame', 'Quilt._axis_array'],
        bounds='Quilt over 2 frames of 2x2; axis and retain_labels symbolic',
        route='Quilt.shape / index / columns / to_frame / iter_array(axis=1) equal those of the concatenated Frame', timeout=300))


# ---------------------------------------------------------------- Batch

def body_batch(env, v0, v1, v2, k):
    sf = env.sf
    vals = [v0, v1, v2]
    names = ['x', 'y', 'z']
    frames = [sf.Frame.from_items((('a', env.array([vals[i], vals[i] + 1], 'int64')), ('b', env.array([vals[i] + 2, vals[i] + 3], 'int64'))), name=names[i]) for i in range(3)]
    b = sf.Batch.from_frames(frames)
    pos = concretize(k, 0, 1)
    res = (b.iloc[pos] + 1).apply(lambda s: s * 2)
    got = [[env.obs(n), env.obs(r.values.tolist())] for n, r in res.items()]
    rows = lambda i: [[vals[i], vals[i] + 2], [vals[i] + 1, vals[i] + 3]]   # noqa: E731
    exp = [[names[i], [(c + 1) * 2 for c in rows(i)[pos]]] for i in range(3)]
    b2 = sf.Batch.from_frames(frames)
    fr = b2.sum().to_frame()
    got.append([env.obs(fr.index.values.tolist()), env.obs(fr.values.tolist())])
    exp.append([names, [[vals[i] * 2 + 1, vals[i] * 2 + 5] for i in range(3)]])
    return got, exp


_add(Cond('batch_ops_pairing', [('v0', 'int'), ('v1', 'int'), ('v2', 'int'), ('k', 'int')], body_batch, ranges={'k': (0, 1)},
        functions=['Batch._apply_attr', 'Batch.apply', 'Batch.to_frame'],
        bounds='Batch of 3 frames with UNBOUNDED symbolic cells; selection position symbolic; chained selection, operator, apply, reduction and to_frame',
        route='Batch: for every label the result of the operation applied to that label\'s Frame; to_frame concatenates exactly those results', timeout=300))


# ---------------------------------------------------------------- Quilt over 1..3 member frames: export and views

def body_quilt_members(env, n, axis_flag, retain):
    from vf import rt
    n, axis, retain = concretize(n, 1, 3), (1 if axis_flag else 0), bool(retain)

    def run():
        sf = env.sf
        names = ['p', 'q', 'r'][:n]
        frames, rows_all, labels_all = [], [], []
        for k, nm in enumerate(names):
            rows = [[100 * (k + 1) + 10 * i + j for j in range(2)] for i in range(2)]
            own = [10 * (k + 1) + 1, 10 * (k + 1) + 2]       # labels on the quilt axis: unique across members
            if axis == 0:
                frames.append(sf.Frame.from_items((('a', env.array([rows[0][0], rows[1][0]], 'int64')), ('b', env.array([rows[0][1], rows[1][1]], 'int64'))), index=own, name=nm))
            else:
                frames.append(sf.Frame.from_items(((own[0], env.array([rows[0][0], rows[1][0]], 'int64')), (own[1], env.array([rows[0][1], rows[1][1]], 'int64'))), index=['a', 'b'], name=nm))
            rows_all.append(rows)
            labels_all += [[nm, l] if retain else l for l in own]
        bus = sf.Bus.from_frames(frames)
        q = sf.Quilt(bus, axis=axis, retain_labels=retain)
        if axis == 0:
            table = [r for rows in rows_all for r in rows]
            index, columns = labels_all, ['a', 'b']
        else:
            table = [[v for rows in rows_all for v in rows[i]] for i in range(2)]
            index, columns = ['a', 'b'], labels_all

        def lab(ix):
            return env.obs([list(t) for t in ix]) if ix.depth > 1 else env.obs(ix.values.tolist())
        f = q.to_frame()
        sel = q.iloc[:, :] if False else q.loc[:, :]
        got = [list(q.shape), lab(q.index), lab(q.columns),
               list(f.shape), lab(f.index), lab(f.columns), env.obs(f.values.tolist()),
               lab(sel.index), lab(sel.columns), env.obs(sel.values.tolist()), env.obs(q.values.tolist())]
        shape = [len(table), len(table[0])]
        exp = [shape, index, columns, shape, index, columns, table, index, columns, table, table]
        return got, exp
    return rt.untraced(run)


_add(Cond('quilt_member_count_export', [('n', 'int'), ('axis_flag', 'bool'), ('retain', 'bool')], body_quilt_members, ranges={'n': (1, 3)},
        functions=['Quilt.to_frame', 'Quilt._extract'],
        bounds='Quilt over a Bus of 1..3 frames of 2x2 (member count symbolic); axis and retain_labels symbolic',
        route='Quilt.shape / index / columns / to_frame / loc[:, :] / values equal the concatenated Frame, with the Bus label as outer level when retained, for every member count (also a single member)', timeout=300))


# ---------------------------------------------------------------- Batch reductions == the member Frame's own reduction

BATCH_OPS = ('sum', 'mean', 'median', 'min', 'max', 'prod', 'std', 'var')


def body_batch_reduce(env, op, axis_flag, skipna, lay):
    from vf import rt
    from vf import layouts
    op = BATCH_OPS[concretize(op, 0, len(BATCH_OPS) - 1)]
    axis, skipna = (1 if axis_flag else 0), bool(skipna)
    layout = (((1, 1), (2, 2)), ((2, 2), (1, 1)), ((1, 1), (1, 1), (1, 1)), ((2, 3),))[concretize(lay, 0, 3)]

    def run():
        sf = env.sf
        from static_frame.core.type_blocks import TypeBlocks

        def frames():
            out = []
            for k, nm in enumerate(('x', 'y')):
                rows = [[3 + 7 * k, 10, 25], [1, 2 + k, 200], [6, 40, 9 + k]]       # uneven magnitudes: a mean of block means differs
                cols = [[float(rows[r][c]) for r in range(3)] for c in range(3)]
                tb = TypeBlocks.from_blocks(layouts.build_blocks(env, cols, 'float64', layout))
                out.append(sf.Frame(tb, index=[10, 11, 12], columns=['a', 'b', 'c'], name=nm))
            return out
        res = getattr(sf.Batch.from_frames(frames()), op)(axis=axis, skipna=skipna)
        got = [[env.obs(n), env.obs(r.index.values.tolist()), env.obs(r.values.tolist())] for n, r in res.items()]
        exp = []
        for f in frames():
            r = getattr(f, op)(axis=axis, skipna=skipna)
            exp.append([f.name, env.obs(r.index.values.tolist()), env.obs(r.values.tolist())])
        fr = getattr(sf.Batch.from_frames(frames()), op)(axis=axis, skipna=skipna).to_frame()
        got.append([env.obs(fr.index.values.tolist()), env.obs(fr.values.tolist())])
        exp.append([[e[0] for e in exp], [e[2] for e in exp]])
        return got, exp
    return rt.untraced(run)


_add(Cond('batch_reductions_equal_member_reductions', [('op', 'int'), ('axis_flag', 'bool'), ('skipna', 'bool'), ('lay', 'int')], body_batch_reduce,
        ranges={'op': (0, len(BATCH_OPS) - 1), 'lay': (0, 3)},
        functions=['Batch._ufunc_axis_skipna'],
        bounds=f'Batch of two 3x3 float64 frames in one of four block layouts (symbolic); reduction symbolic over {BATCH_OPS}; axis and skipna symbolic; concrete cells',
        route='Batch.<reduction>(axis, skipna): per label exactly Frame.<reduction>(axis, skipna) of that member; to_frame stacks those results', timeout=300))


# ---------------------------------------------------------------- Quilt windows (arrays and Frames) across members of different kinds

Q_KINDS = (('int64', (1, 2, 3, 4)), ('<U1', ('p', 'q', 'r', 's')), ('bool', (True, False, True, False)), ('float64', (0.5, 1.5, 2.5, 3.5)))


def body_quilt_windows(env, k0, k1, axis_flag, retain, form, size):
    from vf import rt
    ka, kb = concretize(k0, 0, 3), concretize(k1, 0, 3)
    axis, retain, form, size = (1 if axis_flag else 0), bool(retain), concretize(form, 0, 2), concretize(size, 1, 3)

    def run():
        sf = env.sf
        parts = []
        for k, nm, own in ((ka, 'p', [1, 2]), (kb, 'q', [3, 4])):
            dt, vals = Q_KINDS[k]
            if axis == 0:
                parts.append(sf.Frame.from_items((('a', env.array(list(vals[:2]), dt)), ('b', env.array(list(vals[2:]), dt))), index=own, name=nm))
            else:
                parts.append(sf.Frame.from_items(((own[0], env.array(list(vals[:2]), dt)), (own[1], env.array(list(vals[2:]), dt))), index=['a', 'b'], name=nm))
        q = sf.Quilt(sf.Bus.from_frames(parts), axis=axis, retain_labels=retain)
        whole = sf.Frame.from_concat(parts, axis=axis) if not retain else sf.Frame.from_concat_items(((f.name, f) for f in parts), axis=axis)
        kw = dict(size=size, step=1, axis=axis)

        def o(w):
            if isinstance(w, sf.Frame):
                return ['F', env.obs(w.values.tolist()), [dt.kind for dt in w.dtypes.values.tolist()] if False else None]
            return ['A', env.obs(w.tolist())]     # cells with their types; the array dtype of a window inside ONE member is that member's own

        def lab(l):
            return env.obs(list(l)) if isinstance(l, tuple) else env.obs(l)
        name = ('iter_window_array_items', 'iter_window_items', 'iter_window_array')[form]
        if form == 2:
            got = [o(w) for w in getattr(q, name)(**kw)]
            exp = [o(w) for w in getattr(whole, name)(**kw)]
        else:
            got = [[lab(l), o(w)] for l, w in getattr(q, name)(**kw)]
            exp = [[lab(l), o(w)] for l, w in getattr(whole, name)(**kw)]
        return got, exp
    return rt.untraced(run)


_add(Cond('quilt_windows_member_kinds', [('k0', 'int'), ('k1', 'int'), ('axis_flag', 'bool'), ('retain', 'bool'), ('form', 'int'), ('size', 'int')], body_quilt_windows,
        ranges={'k0': (0, 3), 'k1': (0, 3), 'form': (0, 2), 'size': (1, 3)},
        functions=['Quilt._extract_array', 'axis_window_items'],
        bounds='Quilt over two 2x2 members whose dtype kinds are symbolic (int64 / str / bool / float64 each); axis, retain_labels, window size 1..3 and the window interface (array items / Frame items / arrays) symbolic',
        route='Quilt windows equal the windows of the concatenated Frame: anchor labels and cells (value and type), also when a window spans members of different kinds', timeout=400))


# ---------------------------------------------------------------- Batch methods forward every argument

def body_batch_arguments(env, op, axis_flag, skipna, nanpos):
    from vf import rt
    op, axis, skipna, nanpos = concretize(op, 0, 4), (1 if axis_flag else 0), bool(skipna), concretize(nanpos, 0, 3)

    def run():
        sf = env.sf

        def frames():
            out = []
            for k, nm in enumerate(('x', 'y')):
                cells = [[1.0 + k, 2.0], [3.0, 4.0 + k]]
                if nanpos < 3 and k == 0:
                    cells[nanpos // 2][nanpos % 2] = env.nan
                out.append(sf.Frame(env.array(cells, 'float64'), index=[10, 11], columns=['a', 'b'], name=nm))
            return out
        calls = [lambda c: c.count(skipna=skipna, axis=axis), lambda c: c.sum(axis=axis, skipna=skipna), lambda c: c.cumsum(axis=axis, skipna=skipna),
                 lambda c: c.iloc_min(skipna=True, axis=axis) if skipna else c.iloc_max(skipna=True, axis=axis),
                 lambda c: c.shift(1 if skipna else -1, 0 if axis == 0 else 1, fill_value=-1.0)]
        res = calls[op](sf.Batch.from_frames(frames()))
        got = [[env.obs(n), env.obs(r.values.tolist())] for n, r in res.items()]
        exp = [[f.name, env.obs(calls[op](f).values.tolist())] for f in frames()]
        return got, exp
    return rt.untraced(run)


_add(Cond('batch_methods_forward_arguments', [('op', 'int'), ('axis_flag', 'bool'), ('skipna', 'bool'), ('nanpos', 'int')], body_batch_arguments,
        ranges={'op': (0, 4), 'nanpos': (0, 3)},
        functions=['Batch._apply_attr'],
        bounds='Batch of two 2x2 float frames, one with a NaN at a symbolic position (or none); count / sum / cumsum / iloc_min | iloc_max / shift (symbolic) with symbolic axis, skipna and shift arguments',
        route='Batch.<method>(args): per label exactly Frame.<method>(the same args) of that member (no argument dropped or replaced by a default)', timeout=300))
