"""C20: reshaping and relational operations follow their relational definitions.

Real functions executed: Frame.set_index / unset_index / set_index_hierarchy, relabel_shift_in /
relabel_shift_out, Frame._join (inner / left / right / outer), Frame.pivot (pivot_index_map,
pivot_items, pivot_records_items, extrapolate_column_fields), Frame.pivot_stack / pivot_unstack.
Symbolic: key-column values over a small domain (so the solver chooses 1:1 / 1:n / n:m), payload cells,
fill value.  Oracles: nested-loop join, dict-of-rows group-aggregate, round-trip identity."""
from vf.cond import Cond

CONDS = {}
ASSUMPTIONS = ['key values ints in 0..1 / 0..2; payload ints; aggregation = sum (exact over ints)']
OUTSIDE = ('function maps, multi-field columns beyond 2, join templates beyond the defaults, joins on label depths; more than 3 rows per side')
TRACES_QUICK = 30

M = 'NaN'


def _add(c):
    CONDS[c.name] = c
    return c


def concretize(v, lo, hi):
    for k in range(lo, hi + 1):
        if v == k:
            return k
    raise AssertionError('out of range')


def multiset_equal(a, b):
    if len(a) != len(b):
        return False
    used = [False] * len(b)
    for x in a:
        hit = False
        for j, y in enumerate(b):
            if not used[j] and len(x) == len(y) and all(row_eq(p, q) for p, q in zip(x, y)):
                used[j] = True
                hit = True
                break
        if not hit:
            return False
    return True


def row_eq(p, q):
    if isinstance(p, str) or isinstance(q, str):
        return isinstance(p, str) and isinstance(q, str) and p == q
    return p == q


def mk_join(kind, tier='quick', nl=3, nr=2):
    def body(env, **kw):
        from vf import rt
        lk = [concretize(kw[f'l{i}'], 0, 2) for i in range(nl)]
        rk = [concretize(kw[f'r{i}'], 0, 2) for i in range(nr)]
        return rt.untraced(lambda: run(env, lk, rk))

    def run(env, lk, rk):
        sf = env.sf
        fill = -1
        lp = [101 + i for i in range(nl)]     # payloads are distinct constants: they identify the source row of every output cell
        rp = [201 + i for i in range(nr)]
        left = sf.Frame.from_items((('k', env.array(lk, 'int64')), ('lv', env.array(lp, 'int64'))), index=[10 + i for i in range(nl)])
        right = sf.Frame.from_items((('k2', env.array(rk, 'int64')), ('rv', env.array(rp, 'int64'))), index=[20 + i for i in range(nr)])
        fn = getattr(left, 'join_' + kind)
        r = fn(right, left_columns='k', right_columns='k2', fill_value=fill)
        cols = r.columns.values.tolist()
        got = [[env.obs(v) for v in row] for row in r.values.tolist()]
        # reference: nested loop
        out = []
        matched_l, matched_r = set(), set()
        for i in range(nl):
            for j in range(nr):
                if lk[i] == rk[j]:
                    out.append([lk[i], lp[i], rk[j], rp[j]])
                    matched_l.add(i); matched_r.add(j)
        if kind in ('left', 'outer'):
            for i in range(nl):
                if i not in matched_l:
                    out.append([lk[i], lp[i], fill, fill])
        if kind in ('right', 'outer'):
            for j in range(nr):
                if j not in matched_r:
                    out.append([fill, fill, rk[j], rp[j]])
        exp = out
        # rows are compared as a multiset without looking at symbolic payload ORDER: match each expected row to a distinct observed row
        return [env.obs(cols), multiset_equal(got, exp)], [['k', 'lv', 'k2', 'rv'], True]
    names = [f'l{i}' for i in range(nl)] + [f'r{i}' for i in range(nr)]
    return Cond(f'join_{kind}' + ('' if (nl, nr) == (3, 2) else f'_{nl}x{nr}'), [(p, 'int') for p in names], body,
            ranges={p: (0, 2) for p in names},
            functions=['Frame._join'],
            bounds=f'{nl}-row left and {nr}-row right frame; key values symbolic in 0..2 (1:1 / 1:n / n:m / no match chosen by the solver); payloads distinct constants (row identity), fill -1',
            route=f'Frame.join_{kind}: exactly the matching row pairs (plus unmatched rows of the preserved side, filled)', tier=tier, timeout=400)


for _k in ('inner', 'left', 'right', 'outer'):
    _add(mk_join(_k))
    _add(mk_join(_k, tier='thorough', nl=4, nr=3)).timeout = 1500


def body_set_unset(env, k0, k1, k2, p0, p1, p2):
    sf = env.sf
    ks = [k0, k1, k2]
    f = sf.Frame.from_items((('k', env.array(ks, 'int64')), ('v', env.array([p0, p1, p2], 'int64'))), index=[10, 11, 12])
    g = f.set_index('k', drop=True)
    out = [env.obs(g.index.values.tolist()), env.obs(g.columns.values.tolist()), env.obs(g.values.tolist()), env.obs(g.index.name)]
    exp = [ks, ['v'], [[p0], [p1], [p2]], 'k']
    h = g.unset_index()
    out.append([env.obs(h.columns.values.tolist()), env.obs(h.values.tolist())])
    exp.append([['k', 'v'], [[k0, p0], [k1, p1], [k2, p2]]])
    g2 = f.set_index('k', drop=False)
    out.append([env.obs(g2.index.values.tolist()), env.obs(g2.values.tolist())])
    exp.append([ks, [[k0, p0], [k1, p1], [k2, p2]]])
    return out, exp


_add(Cond('set_index_unset_index', [(p, 'int') for p in ('k0', 'k1', 'k2', 'p0', 'p1', 'p2')], body_set_unset,
        pre=['k0 != k1', 'k0 != k2', 'k1 != k2'],
        functions=['Frame.set_index', 'Frame.unset_index'],
        bounds='3-row frame; key column (distinct) and payload UNBOUNDED symbolic ints',
        route='set_index(drop) / unset_index: columns move into labels and back without changing any cell or its row', timeout=300))


def body_shift_in_out(env, a0, a1, b0, b1):
    sf = env.sf
    f = sf.Frame.from_items((('x', env.array([a0, a1], 'int64')), ('y', env.array([b0, b1], 'int64'))), index=[10, 11])
    g = f.relabel_shift_in('x', axis=0)
    out = [env.obs([list(t) for t in g.index]), env.obs(g.columns.values.tolist()), env.obs(g.values.tolist())]
    exp = [[[10, a0], [11, a1]], ['y'], [[b0], [b1]]]
    h = g.relabel_shift_out(1, axis=0)
    out.append([env.obs(h.index.values.tolist()), sorted(env.obs(h.columns.values.tolist()), key=str), env.obs(h[['y']].values.tolist())])
    exp.append([[10, 11], sorted(['y', g.index.names[1] if hasattr(g.index, 'names') else 'x'], key=str), [[b0], [b1]]])
    return out, exp


_add(Cond('relabel_shift_in_out', [(p, 'int') for p in ('a0', 'a1', 'b0', 'b1')], body_shift_in_out,
        functions=['Frame.relabel_shift_in', 'Frame.relabel_shift_out'],
        bounds='2x2 frame with UNBOUNDED symbolic cells',
        route='relabel_shift_in / relabel_shift_out move a column into the index and back', timeout=300))


def body_pivot(env, i0, i1, i2, c0, c1, c2):
    from vf import rt
    ik = [concretize(x, 0, 1) for x in (i0, i1, i2)]
    ck = [concretize(x, 0, 1) for x in (c0, c1, c2)]
    return rt.untraced(lambda: run_pivot(env, ik, ck))


def run_pivot(env, ik, ck):
    sf = env.sf
    vs = [1, 2, 4]     # powers of two: every sum identifies exactly which source rows it aggregates
    fill = -1
    f = sf.Frame.from_items((('i', env.array(ik, 'int64')), ('c', env.array(ck, 'int64')), ('v', env.array(vs, 'int64'))))
    p = f.pivot('i', 'c', 'v', fill_value=fill)
    idx = p.index.values.tolist()
    cols = p.columns.values.tolist()
    vals = p.values.tolist()
    got = sorted([[env.obs(idx[a]), env.obs(cols[b]), env.obs(vals[a][b])] for a in range(len(idx)) for b in range(len(cols))])
    exp = []
    for a in sorted(set(ik)):
        for b in sorted(set(ck)):
            src = [vs[r] for r in range(3) if ik[r] == a and ck[r] == b]
            exp.append([a, b, sum(src) if src else fill])
    return [got, len(idx), len(cols)], [sorted(exp), len(set(ik)), len(set(ck))]


_add(Cond('pivot_sum', [(p, 'int') for p in ('i0', 'i1', 'i2', 'c0', 'c1', 'c2')], body_pivot,
        ranges={p: (0, 1) for p in ('i0', 'i1', 'i2', 'c0', 'c1', 'c2')},
        functions=['Frame.pivot'],
        bounds='3-row frame; index-field and column-field values symbolic in 0..1; data values 1, 2, 4 (sums identify their source rows), fill -1; aggregation = default (sum)',
        route='Frame.pivot: one row per distinct index value, one column per distinct column value, each cell the sum of exactly the matching source rows, fill elsewhere', timeout=400))


def body_stack_unstack(env, a0, a1, b0, b1):
    from vf import rt
    a0, a1, b0, b1 = [concretize(v, 0, 2) for v in (a0, a1, b0, b1)]
    return rt.untraced(lambda: run_stack_unstack(env, a0, a1, b0, b1))


def run_stack_unstack(env, a0, a1, b0, b1):
    sf = env.sf
    f = sf.Frame.from_items((('x', env.array([a0, a1], 'int64')), ('y', env.array([b0, b1], 'int64'))), index=[10, 11])
    s = f.pivot_stack()
    u = s.pivot_unstack()
    idx = u.index.values.tolist()
    cols = u.columns.values.tolist() if u.columns.depth == 1 else [t[-1] for t in u.columns]
    vals = u.values.tolist()
    got = sorted([[env.obs(idx[a]), env.obs(cols[b]), env.obs(vals[a][b])] for a in range(len(idx)) for b in range(len(cols))], key=str)
    exp = sorted([[10, 'x', a0], [10, 'y', b0], [11, 'x', a1], [11, 'y', b1]], key=str)
    return got, exp


_add(Cond('pivot_stack_unstack_roundtrip', [(p, 'int') for p in ('a0', 'a1', 'b0', 'b1')], body_stack_unstack, ranges={p: (0, 2) for p in ('a0', 'a1', 'b0', 'b1')},
        functions=['Frame.pivot_stack', 'Frame.pivot_unstack'],
        bounds='2x2 frame, cells symbolic in 0..2 (equal and distinct cells)',
        route='pivot_stack followed by pivot_unstack restores every cell at its labels', timeout=400))


# ---------------------------------------------------------------- joins keyed on a label depth AND a column, and on two columns

def ref_join(kind, lkeys, rkeys, lrows, rrows, fill, width_l, width_r):
    out = []
    ml, mr = set(), set()
    for i, a in enumerate(lkeys):
        for j, b in enumerate(rkeys):
            if a == b:
                out.append(list(lrows[i]) + list(rrows[j]))
                ml.add(i); mr.add(j)
    if kind in ('left', 'outer'):
        out += [list(lrows[i]) + [fill] * width_r for i in range(len(lkeys)) if i not in ml]
    if kind in ('right', 'outer'):
        out += [[fill] * width_l + list(rrows[j]) for j in range(len(rkeys)) if j not in mr]
    return out


def mk_join_depth_and_column(kind, tier='quick'):
    def body(env, k0, k1, k2, r0, r1, q0, q1):
        from vf import rt
        lk = [concretize(v, 0, 1) for v in (k0, k1, k2)]
        ri = [concretize(r0, 0, 2), concretize(r1, 0, 2)]
        rk = [concretize(q0, 0, 1), concretize(q1, 0, 1)]

        def run():
            sf = env.sf
            fill = -1
            li = [0, 1, 2]
            lp, rp = [101, 102, 103], [201, 202]
            left = sf.Frame.from_items((('k', env.array(lk, 'int64')), ('lv', env.array(lp, 'int64'))), index=li)
            right = sf.Frame.from_items((('k2', env.array(rk, 'int64')), ('rv', env.array(rp, 'int64'))), index=ri)
            r = getattr(left, 'join_' + kind)(right, left_depth_level=0, left_columns='k', right_depth_level=0, right_columns='k2', fill_value=fill)
            got = [[env.obs(v) for v in row] for row in r.values.tolist()]
            exp = ref_join(kind, list(zip(li, lk)), list(zip(ri, rk)), list(zip(lk, lp)), list(zip(rk, rp)), fill, 2, 2)
            return [env.obs(r.columns.values.tolist()), multiset_equal(got, exp), len(got)], [['k', 'lv', 'k2', 'rv'], True, len(exp)]
        return rt.untraced(run)
    return Cond(f'join_{kind}_depth_and_column', [(p, 'int') for p in ('k0', 'k1', 'k2', 'r0', 'r1', 'q0', 'q1')], body,
            ranges={'k0': (0, 1), 'k1': (0, 1), 'k2': (0, 1), 'r0': (0, 2), 'r1': (0, 2), 'q0': (0, 1), 'q1': (0, 1)}, pre=['r0 != r1'],
            functions=['Frame._join', 'arrays_from_index_frame'],
            bounds='left 3 rows (index 0,1,2; column key symbolic in 0..1), right 2 rows (index labels symbolic distinct in 0..2, column key symbolic in 0..1); the key of a row is (index label, column value)',
            route=f'Frame.join_{kind}(left_depth_level=0, left_columns=k, right_depth_level=0, right_columns=k2): a pair matches iff BOTH key parts agree', tier=tier, timeout=400)


_add(mk_join_depth_and_column('inner'))
_add(mk_join_depth_and_column('outer'))
_add(mk_join_depth_and_column('left', tier='thorough'))
_add(mk_join_depth_and_column('right', tier='thorough'))


def body_join_two_columns(env, k0, k1, k2, j0, j1, j2, kindsel):
    from vf import rt
    lk = [(concretize(a, 0, 1), concretize(b, 0, 1)) for a, b in ((k0, j0), (k1, j1), (k2, j2))]
    kind = ('inner', 'left', 'right', 'outer')[concretize(kindsel, 0, 3)]

    def run():
        sf = env.sf
        fill = -1
        rk = [(0, 0), (1, 1), (0, 1)]
        lp, rp = [101, 102, 103], [201, 202, 203]
        left = sf.Frame.from_items((('k', env.array([a for a, _ in lk], 'int64')), ('j', env.array([b for _, b in lk], 'int64')), ('lv', env.array(lp, 'int64'))), index=[10, 11, 12])
        right = sf.Frame.from_items((('k2', env.array([a for a, _ in rk], 'int64')), ('j2', env.array([b for _, b in rk], 'int64')), ('rv', env.array(rp, 'int64'))), index=[20, 21, 22])
        r = getattr(left, 'join_' + kind)(right, left_columns=['k', 'j'], right_columns=['k2', 'j2'], fill_value=fill)
        got = [[env.obs(v) for v in row] for row in r.values.tolist()]
        exp = ref_join(kind, lk, rk, [list(k) + [p] for k, p in zip(lk, lp)], [list(k) + [p] for k, p in zip(rk, rp)], fill, 3, 3)
        return [env.obs(r.columns.values.tolist()), multiset_equal(got, exp), len(got)], [['k', 'j', 'lv', 'k2', 'j2', 'rv'], True, len(exp)]
    return rt.untraced(run)


_add(Cond('join_two_key_columns', [(p, 'int') for p in ('k0', 'k1', 'k2', 'j0', 'j1', 'j2', 'kindsel')], body_join_two_columns,
        ranges={p: (0, 1) for p in ('k0', 'k1', 'k2', 'j0', 'j1', 'j2')} | {'kindsel': (0, 3)},
        functions=['Frame._join'],
        bounds='left 3 rows with a two-column key (both parts symbolic in 0..1), right rows keyed (0,0), (1,1), (0,1); join kind symbolic over inner/left/right/outer',
        route='Frame.join_*(left_columns=[k, j], right_columns=[k2, j2]): a pair matches iff both key columns agree', timeout=400))


# ---------------------------------------------------------------- pivot with two index fields and no column field

def mk_pivot_two_index_fields(finding=False):
    def body(env, s0, s1, s2, n0, n1, n2, mixed):
        from vf import rt
        ss = [bool(s0), bool(s1), bool(s2)]
        ns = [concretize(v, 0, 1) for v in (n0, n1, n2)]
        mixed = bool(mixed)

        def run():
            sf = env.sf
            vs = [1, 2, 4]
            outer = [('b' if s else 'a') for s in ss] if mixed else [(7 if s else 3) for s in ss]
            f = sf.Frame.from_items((('s', env.array(outer, '<U1' if mixed else 'int64')), ('n', env.array(ns, 'int64')), ('v', env.array(vs, 'int64'))))
            p = f.pivot(('s', 'n'), data_fields='v')
            got = sorted([[env.obs(list(k)), env.obs(v)] for k, v in zip(p.index, p['v'].values.tolist())], key=lambda t: [str(x) for x in t[0]])
            pairs = []
            for o, n in zip(outer, ns):
                if [o, n] not in pairs:
                    pairs.append([o, n])
            exp = sorted([[k, sum(v for v, o, n in zip(vs, outer, ns) if [o, n] == k)] for k in pairs], key=lambda t: [str(x) for x in t[0]])
            return [got, list(p.shape)], [exp, [len(pairs), 1]]
        return rt.untraced(run)
    # an outer label that re-appears after another one, in first-appearance order of DISTINCT keys (mixed kinds only): finding F27
    region = 'mixed and s0 != s1 and s2 == s0 and n2 != n0'
    return Cond('pivot_two_index_fields' + ('_noncontiguous_finding' if finding else ''), [('s0', 'bool'), ('s1', 'bool'), ('s2', 'bool'), ('n0', 'int'), ('n1', 'int'), ('n2', 'int'), ('mixed', 'bool')], body,
            ranges={'n0': (0, 1), 'n1': (0, 1), 'n2': (0, 1)}, pre=[region if finding else f'not ({region})'],
            functions=['Frame.pivot'],
            bounds='3-row frame; two index fields (outer: two values chosen per row by a symbolic Boolean, held as str or int (symbolic); inner symbolic in 0..1), no column field; data 1, 2, 4',
            route='Frame.pivot((s, n), data_fields=v): one row per distinct (s, n) pair labelled by that pair, the cell the sum of exactly the rows with that pair', timeout=400)


_add(mk_pivot_two_index_fields())
_add(mk_pivot_two_index_fields(finding=True))


# ---------------------------------------------------------------- set_index_hierarchy: rows move with their keys

def body_set_index_hierarchy(env, o0, o1, o2, drop, reorder):
    from vf import rt
    outs = [concretize(v, 0, 1) for v in (o0, o1, o2)]
    drop, reorder = bool(drop), bool(reorder)

    def run():
        sf = env.sf
        from static_frame.core.exception import ErrorInitIndex
        inner = [5, 6, 7]
        pay = [101, 102, 103]
        f = sf.Frame.from_items((('o', env.array(outs, 'int64')), ('i', env.array(inner, 'int64')), ('v', env.array(pay, 'int64'))), index=[10, 11, 12])
        grouped = not (outs[0] == outs[2] and outs[0] != outs[1])
        try:
            r = f.set_index_hierarchy(['o', 'i'], drop=drop, reorder_for_hierarchy=reorder)
            got = ['ok', sorted([[env.obs(list(t)), env.obs(row)] for t, row in zip(r.index, r.values.tolist())], key=lambda p: p[0]),
                   env.obs(r.columns.values.tolist())]
            if reorder:
                # equal outer labels are adjacent afterwards
                seen, ok = [], True
                for t in r.index:
                    if seen and t[0] != seen[-1] and t[0] in seen:
                        ok = False
                    seen.append(t[0])
                got.append(ok)
        except ErrorInitIndex:
            got = ['rejected']
        if not reorder and not grouped:
            exp = ['rejected']
        else:
            rows = [[[outs[k], inner[k]], ([pay[k]] if drop else [outs[k], inner[k], pay[k]])] for k in range(3)]
            exp = ['ok', sorted(rows, key=lambda p: p[0]), ['v'] if drop else ['o', 'i', 'v']]
            if reorder:
                exp.append(True)
        return got, exp
    return rt.untraced(run)


_add(Cond('set_index_hierarchy_rows_follow_keys', [('o0', 'int'), ('o1', 'int'), ('o2', 'int'), ('drop', 'bool'), ('reorder', 'bool')], body_set_index_hierarchy,
        ranges={'o0': (0, 1), 'o1': (0, 1), 'o2': (0, 1)},
        functions=['Frame.set_index_hierarchy'],
        bounds='3-row frame; outer key column symbolic in 0..1 (grouped or not), inner key distinct; drop and reorder_for_hierarchy symbolic',
        route='Frame.set_index_hierarchy([o, i], drop, reorder_for_hierarchy): every row labelled (o, i) carries exactly the cells of the source row with those keys; ungrouped keys are rejected unless reordering is asked for', timeout=300))


# ---------------------------------------------------------------- pivot_stack / pivot_unstack on hierarchical columns of differing dtypes

STACK_KINDS = (('<U1', ('l', 'r')), ('<U6', ('left', 'right')), ('int64', (3, 4)), ('float64', (1.5, 2.5)), ('bool', (True, False)))


def body_stack_hier(env, k0, k1, level):
    from vf import rt
    ka, kb, level = concretize(k0, 0, 4), concretize(k1, 0, 4), concretize(level, 0, 1)

    def run():
        sf = env.sf
        cols = [('x', 'p'), ('y', 'p')] if level == 0 else [('p', 'x'), ('p', 'y')]     # moving `level` leaves ONE remaining label p
        a, b = STACK_KINDS[ka], STACK_KINDS[kb]
        f = sf.Frame.from_items(((cols[0], env.array(list(a[1]), a[0])), (cols[1], env.array(list(b[1]), b[0]))), index=[10, 11],
                                columns_constructor=sf.IndexHierarchy.from_labels)
        st = f.pivot_stack(level)
        got_st = sorted([[env.obs(list(t)), env.obs(row)] for t, row in zip(st.index, st.values.tolist())], key=lambda p: [str(x) for x in p[0]])
        exp_st = sorted([[[10 + r, mv], [vals[r]]] for mv, vals in (('x', a[1]), ('y', b[1])) for r in range(2)], key=lambda p: [str(x) for x in p[0]])
        back = st.pivot_unstack(-1)
        cells = {}
        for r, row in zip(back.index.values.tolist(), back.values.tolist()):
            for c, v in zip(back.columns, row):
                cells[(r, c[-1])] = v
        got_back = [[r, mv, env.obs(cells.get((r, mv), 'absent'))] for r in (10, 11) for mv in ('x', 'y')]
        exp_back = [[10 + r, mv, vals[r]] for r in range(2) for mv, vals in (('x', a[1]), ('y', b[1]))]
        return [got_st, env.obs(st.columns.values.tolist()), sorted(got_back, key=str)], [exp_st, ['p'], sorted(exp_back, key=str)]
    return rt.untraced(run)


_add(Cond('pivot_stack_hierarchical_columns_dtypes', [('k0', 'int'), ('k1', 'int'), ('level', 'int')], body_stack_hier,
        ranges={'k0': (0, 4), 'k1': (0, 4), 'level': (0, 1)},
        functions=['Frame.pivot_stack', 'pivot_index_map'],
        bounds='2-row frame with two columns under depth-2 labels sharing one remaining label; the dtype of each column symbolic over (<U1, <U6, int64, float64, bool) (same kind / different width in both orders, different kinds); the moved level symbolic',
        route='pivot_stack(level) on hierarchical columns: every source cell arrives unchanged at (row + moved label, remaining label) whatever the dtypes that meet in the stacked column; pivot_unstack brings every cell back', timeout=300))


# ---------------------------------------------------------------- pivot with several data fields, requested in any order

import itertools
FIELD_SELECTIONS = [p for k in (2, 3) for p in itertools.permutations(('v', 'w', 'x'), k)]


def body_pivot_fields(env, i1, i2, c1, c2, sel, front):
    from vf import rt
    ik = [0] + [concretize(x, 0, 1) for x in (i1, i2)]
    ck = [0] + [concretize(x, 0, 1) for x in (c1, c2)]
    sel, front = concretize(sel, 0, len(FIELD_SELECTIONS) - 1), bool(front)

    def run():
        sf = env.sf
        data = {'v': [1, 2, 4], 'w': [8, 16, 32], 'x': [64, 128, 256]}    # every sum identifies its field and its source rows
        fields = FIELD_SELECTIONS[sel]
        fill = -1
        keys = [('i', env.array(ik, 'int64')), ('c', env.array(ck, 'int64'))]
        vals = [(k, env.array(data[k], 'int64')) for k in ('v', 'w', 'x')]
        f = sf.Frame.from_items(vals + keys if front else keys + vals)
        p = f.pivot('i', 'c', list(fields), fill_value=fill)
        idx = p.index.values.tolist()
        cols = p.columns.values.tolist()
        cells = p.values.tolist()
        got = sorted([[env.obs(idx[a]), env.obs(list(cols[b])), env.obs(cells[a][b])] for a in range(len(idx)) for b in range(len(cols))])
        exp = []
        for a in sorted(set(ik)):
            for b in sorted(set(ck)):
                for d in fields:
                    src = [data[d][r] for r in range(3) if ik[r] == a and ck[r] == b]
                    exp.append([a, [b, d], sum(src) if src else fill])
        return [got, len(idx), len(cols)], [sorted(exp), len(set(ik)), len(set(ck)) * len(fields)]
    return rt.untraced(run)


_add(Cond('pivot_several_data_fields_any_order', [('i1', 'int'), ('i2', 'int'), ('c1', 'int'), ('c2', 'int'), ('sel', 'int'), ('front', 'bool')], body_pivot_fields,
        ranges={'i1': (0, 1), 'i2': (0, 1), 'c1': (0, 1), 'c2': (0, 1), 'sel': (0, len(FIELD_SELECTIONS) - 1)},
        functions=['Frame.pivot', 'pivot_records_items', 'extrapolate_column_fields'],
        bounds='3-row frame with three data columns; index-field and column-field values of rows 1-2 symbolic in 0..1 (groups with and without repeated keys); data_fields = any ordered selection of 2 or 3 of the data columns (12 selections, symbolic); data columns stored before or after the key columns; default aggregation, fill -1',
        route='Frame.pivot(i, c, data_fields): one column per (column value, data field), each cell the sum over exactly the matching source rows OF THAT FIELD, whatever order the fields are requested in', timeout=400))
