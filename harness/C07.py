"""C07: no lossy coercion when values of different types meet.

Part 1 (dtype lattice): the real resolve_dtype / resolve_dtype_iter are executed for every ordered
pair of a dtype universe U (the pair is chosen by two symbolic indices, so the solver enumerates it
and any changed branch order in resolve_dtype is met by every pair): the result must be able to hold
every value of both inputs (table measured from the installed NumPy at run time), be symmetric and
idempotent, and folding a triple must not depend on order.
Part 2 (per-site obligations): an element of a symbolic KIND and value (bool / int / big int / NaN /
None / str / tuple) meets an existing array of each dtype through the real merging operations; every
cell read back must equal, value AND type, what was supplied, and untouched columns keep their dtype."""
from vf.cond import Cond

CONDS = {}
ASSUMPTIONS = ['dtype universe U listed in the evidence; "holds(r, d)" = r is d, or r is object, or np.can_cast(d, r, "safe") tightened so that 64-bit ints are NOT held by floats']
OUTSIDE = ('str<->bytes mixing (excluded by the property); complex; structured dtypes; datetime units beyond D/s/Y in the lattice part; values beyond the kinds listed')
TRACES_QUICK = 30


def _add(c):
    CONDS[c.name] = c
    return c


def universe():
    import numpy as np
    names = ['bool', 'int8', 'int16', 'int32', 'int64', 'uint8', 'uint16', 'uint32', 'uint64', 'float16', 'float32', 'float64',
             'complex64', 'complex128', '<U1', '<U3', 'S1', 'S3', 'M8[D]', 'M8[s]', 'M8[Y]', 'm8[D]', 'm8[s]', 'm8[Y]', 'object']
    return [np.dtype(n) for n in names]


def holds(r, d):
    import numpy as np
    if r == d or r.kind == 'O':
        return True
    if d.kind in 'iu' and r.kind in 'fc':
        # a float holds an int type only if its mantissa covers it
        mant = {'float16': 11, 'float32': 24, 'float64': 53, 'complex64': 24, 'complex128': 53}[r.name]
        bits = d.itemsize * 8 - (1 if d.kind == 'i' else 0)
        return bits <= mant
    if d.kind == 'b' and r.kind != 'b':
        return False   # Booleans are never cast into numbers or strings
    if (d.kind in 'US') != (r.kind in 'US'):
        return False
    if d.kind in 'US' and r.kind in 'US':
        if d.kind != r.kind:
            return True   # str/bytes mixing is outside the claim
        return r.itemsize >= d.itemsize
    return bool(np.can_cast(d, r, 'safe'))


def pick(U, i):
    for k in range(len(U)):
        if i == k:
            return U[k]
    raise AssertionError('index out of range')


def body_lattice(env, i, j):
    from static_frame.core.util import resolve_dtype
    U = universe()
    d1, d2 = pick(U, i), pick(U, j)
    r = resolve_dtype(d1, d2)
    r2 = resolve_dtype(d2, d1)
    got = [holds(r, d1), holds(r, d2), r2 == r or (r.kind in 'US' and r2.kind in 'US'), resolve_dtype(r, r) == r]
    return got, [True, True, True, True]


_N = 25
# 64-bit ints meeting floats / complex, or int64 meeting uint64, resolve to float64 (NumPy promotion): finding F6,
# isolated in resolve_dtype_lattice_int64_float so that every other pair is still decided
F6_PAIR = '((i in (4, 8) and 9 <= j <= 13) or (j in (4, 8) and 9 <= i <= 13) or (i == 8 and 1 <= j <= 4) or (j == 8 and 1 <= i <= 4))'
_add(Cond('resolve_dtype_lattice_int64_float', [('i', 'int'), ('j', 'int')], body_lattice, ranges={'i': (0, _N - 1), 'j': (0, _N - 1)}, pre=[F6_PAIR],
        functions=['resolve_dtype'], bounds='the 28 ordered pairs in which a 64-bit integer dtype meets a float / complex dtype or the integer dtype of the other signedness',
        route='resolve_dtype(d1, d2) holds both inputs', timeout=300))
_add(Cond('resolve_dtype_lattice', [('i', 'int'), ('j', 'int')], body_lattice, ranges={'i': (0, _N - 1), 'j': (0, _N - 1)}, pre=['not ' + F6_PAIR],
        functions=['resolve_dtype'],
        bounds=f'all {_N}x{_N} ordered pairs of the dtype universe (bool; int/uint 8-64; float16-64; complex64/128; U1,U3,S1,S3; M8/m8 in D,s,Y; object), the pair chosen by two symbolic indices',
        route='resolve_dtype(d1, d2) holds both inputs, is symmetric and idempotent', timeout=600))


def body_lattice_iter(env, i, j, k):
    from static_frame.core.util import resolve_dtype_iter
    import numpy as np
    U = [np.dtype(n) for n in ('bool', 'int64', 'float64', '<U1', '<U3', 'M8[D]', 'object')]
    ds = [pick(U, i), pick(U, j), pick(U, k)]
    r = resolve_dtype_iter(ds)
    r2 = resolve_dtype_iter(ds[::-1])
    r3 = resolve_dtype_iter([ds[1], ds[2], ds[0]])
    return [all(holds(r, d) for d in ds), r == r2, r == r3], [True, True, True]


_add(Cond('resolve_dtype_iter_order', [('i', 'int'), ('j', 'int'), ('k', 'int')], body_lattice_iter, ranges={p: (0, 6) for p in 'ijk'},
        pre=['not (1 in (i, j, k) and 2 in (i, j, k))'],   # int64 with float64: finding F6
        functions=['resolve_dtype_iter', 'resolve_dtype'],
        bounds='all ordered triples over {bool, int64, float64, U1, U3, M8[D], object}',
        route='resolve_dtype_iter: result holds all inputs and does not depend on fold order', timeout=300))


# ---------------------------------------------------------------- per-site obligations

BIG = 2 ** 60 + 1

ELEM_KINDS = ['bool', 'int', 'bigint', 'nan', 'none', 'str', 'tuple']
ARRAYS = {
    'bool': ([True, False], 'bool'),
    'int64': ([3, 4], 'int64'),
    'float64': ([3, 4], 'float64'),
    'U1': (['a', 'b'], '<U1'),
    'object': ([None, 'zz'], 'object'),
}


def element(env, kind, v, b):
    if kind == 'bool':
        return b, b
    if kind == 'int':
        return v, v
    if kind == 'bigint':
        return BIG, BIG
    if kind == 'nan':
        return env.nan, 'NaN'
    if kind == 'none':
        return None, None
    if kind == 'str':
        return 'wxyz', 'wxyz'
    if kind == 'tuple':
        return (1, 2), [1, 2]
    raise AssertionError(kind)


def site_reindex(env, arr, elem):
    sf = env.sf
    s = sf.Series(arr, index=(0, 1))
    r = s.reindex((1, 2, 0), fill_value=elem)
    return env.obs(r.values.tolist()), lambda cells, e: [cells[1], e, cells[0]]


def site_shift(env, arr, elem):
    sf = env.sf
    s = sf.Series(arr, index=(0, 1))
    r = s.shift(1, fill_value=elem)
    return env.obs(r.values.tolist()), lambda cells, e: [e, cells[0]]


def site_assign(env, arr, elem):
    sf = env.sf
    s = sf.Series(arr, index=(0, 1))
    r = s.assign.iloc[1](elem)
    return env.obs(r.values.tolist()), lambda cells, e: [cells[0], e]


def site_frame_assign(env, arr, elem):
    sf = env.sf
    f = sf.Frame.from_items((('x', arr), ('y', env.array([7, 8], 'int64'))))
    r = f.assign.iloc[0, 0](elem)
    return [env.obs(r.values.tolist()), r._blocks._dtypes[1].kind], lambda cells, e: [[[e, 7], [cells[1], 8]], 'i']


def site_frame_shift(env, arr, elem):
    sf = env.sf
    f = sf.Frame.from_items((('x', arr), ('y', env.array([7, 8], 'int64'))))
    r = f.shift(1, fill_value=elem)
    return env.obs(r.values.tolist()), lambda cells, e: [[e, e], [cells[0], 7]]


def site_concat(env, arr, elem):
    from static_frame.core.util import concat_resolved, iterable_to_array_1d
    other, _ = iterable_to_array_1d([elem])
    r = concat_resolved((arr, other))
    return env.obs(r.tolist()), lambda cells, e: [cells[0], cells[1], e]


def site_from_records(env, arr, elem):
    sf = env.sf
    cells = arr.tolist()
    f = sf.Frame.from_records([[cells[0], 1], [elem, 2], [cells[1], 3]])
    return env.obs(f.values.tolist()), lambda cells_, e: [[cells_[0], 1], [e, 2], [cells_[1], 3]]


def site_indexgo_append(env, arr, elem):
    sf = env.sf
    idx = sf.IndexGO(arr)
    idx.append(elem)
    return env.obs(idx.values.tolist()), lambda cells, e: [cells[0], cells[1], e]


def site_fillna(env, arr, elem):
    sf = env.sf
    s = sf.Series(env.array([env.nan, 5], 'float64'), index=(0, 1))
    t = sf.Series(arr, index=(0, 1))
    r = s.fillna(elem)
    return [env.obs(r.values.tolist()), env.obs(t.values.tolist())], lambda cells, e: [[e, 5], cells]


SITES = {'reindex': site_reindex, 'shift': site_shift, 'series_assign': site_assign, 'frame_assign': site_frame_assign,
         'frame_shift': site_frame_shift, 'concat_resolved': site_concat, 'from_records': site_from_records,
         'indexgo_append': site_indexgo_append, 'fillna': site_fillna}
NO_TUPLE = {'series_assign', 'frame_assign', 'concat_resolved', 'from_records', 'fillna', 'frame_shift', 'shift'}
NO_NAN_LABEL = {'indexgo_append'}


def mk_site(site, arr_name, tier='quick', bigint_only=False, bool_only=False, numeric_only=False):
    cells, dt = ARRAYS[arr_name]

    def body(env, kind, v, b):
        k = None
        for i, name in enumerate(ELEM_KINDS):
            if kind == i:
                k = name
        if k == 'tuple' and site in NO_TUPLE:
            k = 'int'      # tuples only where the interface takes a single element
        if k in ('nan', 'none') and site in NO_NAN_LABEL:
            k = 'int'
        if k == 'int' and arr_name in ('int64', 'float64', 'bool') and site == 'indexgo_append':
            v = v * 0 + 99   # labels must stay unique (3 == 3.0, 1 == True)
        if k == 'bool' and site == 'indexgo_append':
            k = 'str'        # True == 1 as a label is ambiguous with int labels: outside
        elem, ref_elem = element(env, k, v, b)
        arr = env.array(list(cells), dt)
        got, ref_fn = SITES[site](env, arr, elem)
        ref_cells = [env.obs(c) for c in cells]
        return got, ref_fn(ref_cells, ref_elem)
    f6 = arr_name == 'float64' or site == 'fillna'
    f19 = site == 'from_records' and arr_name in ('int64', 'float64')   # bool mixed with numbers in one iterable: finding F19
    pre = []
    if f6 and not bigint_only:
        pre.append('kind != 2')
    if f19 and not bool_only:
        pre.append('kind != 0')
    if bigint_only:
        pre = ['kind == 2']
    if bool_only:
        pre = ['kind == 0']
    # F19 seen from the other side: a bool column receiving a number in the same iterable (kinds int, bigint, nan, tuple->int)
    f19b = site == 'from_records' and arr_name == 'bool'
    if f19b and not numeric_only:
        pre.append('kind not in (1, 2, 3, 6)')
    if numeric_only:
        pre = ['kind in (1, 2, 3, 6)']
    return Cond(f'site_{site}_{arr_name}' + ('_bigint' if bigint_only else '') + ('_bool' if bool_only else '') + ('_numeric' if numeric_only else ''), [('kind', 'int'), ('v', 'int'), ('b', 'bool')], body, pre=pre,
            ranges={'kind': (0, len(ELEM_KINDS) - 1), 'v': (-(2 ** 53), 2 ** 53)},
            functions=[],
            bounds=f'existing array dtype {dt} ({cells}); supplied element kind symbolic over {ELEM_KINDS} (int value symbolic within +-2**53, big int = 2**60+1, str = "wxyz" longer than the array width)',
            route=f'{site}: every cell read back equals (value and type) what was supplied', tier=tier, timeout=200)


QUICK_SITES = [('reindex', 'int64'), ('reindex', 'U1'), ('reindex', 'bool'), ('shift', 'float64'), ('series_assign', 'U1'), ('series_assign', 'int64'),
               ('series_assign', 'bool'), ('frame_assign', 'int64'), ('frame_assign', 'float64'), ('frame_shift', 'U1'), ('concat_resolved', 'int64'),
               ('concat_resolved', 'U1'), ('from_records', 'int64'), ('from_records', 'U1'), ('indexgo_append', 'int64'), ('indexgo_append', 'U1'),
               ('fillna', 'int64')]
for _s, _a in QUICK_SITES:
    _add(mk_site(_s, _a))
_add(mk_site('shift', 'float64', bigint_only=True))
_add(mk_site('fillna', 'int64', bigint_only=True))
_add(mk_site('from_records', 'int64', bool_only=True))
_add(mk_site('from_records', 'float64', bool_only=True, tier='thorough'))
_add(mk_site('from_records', 'bool', numeric_only=True, tier='thorough'))
for _s in SITES:
    for _a in ARRAYS:
        c = mk_site(_s, _a, tier='thorough')
        if c.name not in CONDS:
            _add(c)


# ---------------------------------------------------------------- Python iterables: every ORDER of element kinds

ITER_KINDS = ('int', 'bigint', 'float', 'nan', 'none', 'str')   # bool + number in one iterable: finding F19, see site_from_records_*


def body_iter_orders(env, k0, k1, k2):
    from vf import rt
    ks = [pick(ITER_KINDS, k) for k in (k0, k1, k2)]

    def run():
        sf = env.sf
        from static_frame.core.util import iterable_to_array_1d
        table = {'int': (3, 3), 'bigint': (BIG, BIG), 'float': (1.5, 1.5), 'nan': (env.nan, 'NaN'), 'none': (None, None), 'str': ('wxyz', 'wxyz')}
        vals = [table[k][0] for k in ks]
        ref = [table[k][1] for k in ks]
        got = [env.obs(iterable_to_array_1d(list(vals))[0].tolist()), env.obs(iterable_to_array_1d(iter(list(vals)))[0].tolist()),
               env.obs(sf.Series(list(vals)).values.tolist()),
               env.obs(sf.Frame.from_records([[v, 0] for v in vals]).iloc[:, 0].values.tolist()),
               env.obs(sf.Frame.from_items((('x', list(vals)),)).iloc[:, 0].values.tolist())]
        return got, [ref] * 5
    return rt.untraced(run)


_add(Cond('iterable_element_orders', [('k0', 'int'), ('k1', 'int'), ('k2', 'int')], body_iter_orders, ranges={p: (0, len(ITER_KINDS) - 1) for p in ('k0', 'k1', 'k2')},
        functions=['prepare_iter_for_array', 'iterable_to_array_1d'],
        bounds=f'a Python iterable of 3 elements, the kind of every element symbolic over {ITER_KINDS} (3, 2**60+1, 1.5, NaN, None, "wxyz"): every multiset in EVERY order',
        route='iterable_to_array_1d (list and iterator) / Series(list) / Frame.from_records column / Frame.from_items column: every element read back equals what was supplied', timeout=300))


# ---------------------------------------------------------------- values carried ACROSS blocks by a fill keep value and type
# (the condition body is shared with C14, where the subject is the fill; here it is the dtype resolution between the
# block that supplies the value and the block that receives it: _fillna_directional_axis_1 -> resolve_dtype)
from harness.C14 import body_directional_mixed as _body_directional_mixed  # noqa: E402

_add(Cond('site_fill_across_blocks_kinds', [('k0', 'int'), ('k1', 'int'), ('k2', 'int'), ('m0', 'bool'), ('m1', 'bool'), ('m2', 'bool')], _body_directional_mixed,
        ranges={'k0': (0, 2), 'k1': (0, 2), 'k2': (0, 2)}, pre=['k0 == 0 or not m0', 'k1 == 0 or not m1', 'k2 == 0 or not m2'],
        functions=['TypeBlocks._fillna_directional_axis_1', 'resolve_dtype'],
        bounds='one-row frame of 3 columns; the kind of every column symbolic over (float64, int64, bool), float cells possibly missing (symbolic); every block layout that can hold the kinds',
        route='fillna_forward / fillna_backward(axis=1): a value carried from a block of one kind into a block of another kind is stored without loss (value and type)', timeout=300))


# ---------------------------------------------------------------- a FRAME value assigned into a block: every value column keeps its cells

VAL_KINDS = (('int64', (7, 8)), ('float64', (1.5, 2.75)), ('bool', (True, False)), ('<U3', ('ab', 'xyz')))


def body_assign_frame_value(env, k0, k1, rows_all, tlay, vsplit):
    from vf import rt
    ka, kb = pick((0, 1, 2, 3), k0), pick((0, 1, 2, 3), k1)
    rows_all, tlay, vsplit = bool(rows_all), pick((0, 1, 2), tlay), bool(vsplit)

    def run():
        sf = env.sf
        from static_frame.core.type_blocks import TypeBlocks
        from vf import layouts
        # target: 3 rows x 3 int64 columns a b c; layout: one 2-D block / 2-D (a, b) + 1-D c / three 1-D blocks
        tl = (((2, 3),), ((2, 2), (1, 1)), ((1, 1), (1, 1), (1, 1)))[tlay]
        trow = [[100 * (r + 1) + c for c in range(3)] for r in range(3)]
        tcols = [[trow[r][c] for r in range(3)] for c in range(3)]
        f = sf.Frame(TypeBlocks.from_blocks(layouts.build_blocks(env, tcols, 'int64', tl)), index=[10, 11, 12], columns=['a', 'b', 'c'])
        va, vb = VAL_KINDS[ka], VAL_KINDS[kb]
        vrows = [10, 11] if not rows_all else [10, 11, 12]
        acol = list(va[1]) + ([va[1][0]] if rows_all else [])
        bcol = list(vb[1]) + ([vb[1][0]] if rows_all else [])
        if vsplit or va[0] != vb[0]:
            value = sf.Frame.from_items((('a', env.array(acol, va[0])), ('b', env.array(bcol, vb[0]))), index=vrows)
        else:
            value = sf.Frame(env.array([[x, y] for x, y in zip(acol, bcol)], va[0]), index=vrows, columns=['a', 'b'])
        r = f.assign.loc[vrows, ['a', 'b']](value)
        got = [[env.obs(r.loc[i, c]) for c in ('a', 'b', 'c')] for i in (10, 11, 12)]
        exp = []
        for ri, i in enumerate((10, 11, 12)):
            if i in vrows:
                exp.append([env.obs(acol[vrows.index(i)]), env.obs(bcol[vrows.index(i)]), trow[ri][2]])
            else:
                exp.append(list(trow[ri]))
        return [got, env.obs(f.values.tolist())], [exp, trow]
    return rt.untraced(run)


_add(Cond('site_assign_frame_value_kinds', [('k0', 'int'), ('k1', 'int'), ('rows_all', 'bool'), ('tlay', 'int'), ('vsplit', 'bool')], body_assign_frame_value,
        ranges={'k0': (0, 3), 'k1': (0, 3), 'tlay': (0, 2)},
        functions=['TypeBlocks._assign_from_iloc_by_blocks'],
        bounds='3x3 int64 target in three block layouts (symbolic); Frame value over columns a, b whose kinds are symbolic over (int64, float64, bool, str) each, held in one or in separate blocks; partial or full row key (symbolic)',
        route='Frame.assign.loc[rows, [a, b]](Frame): every assigned cell equals (value and type) the supplied one whatever the kinds of the neighbouring value columns; other cells and the original unchanged', timeout=400))


# ---------------------------------------------------------------- grow-only frames: a later, WIDER column of the same kind

GROW_KINDS = (('<U1', ('l', 'r')), ('<U6', ('left', 'right')), ('int64', (3, 4)), ('float64', (1.5, 2.5)), ('bool', (True, False)))


def body_framego_growth_widths(env, k0, k1, k2, how):
    from vf import rt
    ks = [pick((0, 1, 2, 3, 4), k) for k in (k0, k1, k2)]
    how = pick((0, 1, 2), how)

    def run():
        sf = env.sf
        parts = [GROW_KINDS[k] for k in ks]
        g = sf.FrameGO.from_items((('a', env.array(list(parts[0][1]), parts[0][0])),), index=[10, 11])
        if how == 0:
            g['b'] = env.array(list(parts[1][1]), parts[1][0])
            g['c'] = env.array(list(parts[2][1]), parts[2][0])
        elif how == 1:
            g.extend(sf.Frame.from_items((('b', env.array(list(parts[1][1]), parts[1][0])), ('c', env.array(list(parts[2][1]), parts[2][0]))), index=[10, 11]))
        else:
            g['b'] = sf.Series(env.array(list(parts[1][1]), parts[1][0]), index=[10, 11])
            g.extend(sf.Series(env.array(list(parts[2][1]), parts[2][0]), index=[10, 11], name='c'))
        rows = [[parts[c][1][r] for c in range(3)] for r in range(2)]
        ref = [[env.obs(v) for v in row] for row in rows]
        got = [env.obs(g.values.tolist()), [env.obs(a.tolist()) for a in g.iter_array(axis=1)], env.obs(g.transpose().values.tolist()),
               [env.obs(s.values.tolist()) for s in g.iter_series(axis=1)], env.obs(g.to_frame().values.tolist()), [[env.obs(g.iloc[r, c]) for c in range(3)] for r in range(2)]]
        exp = [ref, ref, [[ref[r][c] for r in range(2)] for c in range(3)], ref, ref, ref]
        return got, exp
    return rt.untraced(run)


_add(Cond('site_framego_growth_dtype_widths', [('k0', 'int'), ('k1', 'int'), ('k2', 'int'), ('how', 'int')], body_framego_growth_widths,
        ranges={'k0': (0, 4), 'k1': (0, 4), 'k2': (0, 4), 'how': (0, 2)},
        functions=['TypeBlocks.append', 'TypeBlocks.extend'],
        bounds=f'FrameGO grown from one to three columns by setitem / extend(Frame) / setitem(Series) + extend(Series) (symbolic); the dtype of every column symbolic over {[k for k, _ in GROW_KINDS]} (narrow then wide strings, mixed kinds)',
        route='after growth every whole-row view (values, iter_array(axis=1), transpose, iter_series(axis=1), to_frame, element reads) holds exactly the supplied cells', timeout=400))
