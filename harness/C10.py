"""C10: equals is a content equivalence; hashable variants honour the hash contract.

Real functions executed: TypeBlocks.equals (via __eq__ -> _ufunc_binary_operator ->
apply_binary_operator_blocks, isna, _extract_array), Index.equals, Series.equals, Frame.equals,
FrameHE/SeriesHE __eq__/__ne__/__hash__, isna_array.
Oracle: cell-wise list comparison written here."""
from vf.cond import Cond, nan_or
from vf import layouts

CONDS = {}
ASSUMPTIONS = ['cells are integers or NaN held in float64/int64/object columns; labels are distinct ints']
OUTSIDE = ('Bus.equals; string and datetime cells; shapes beyond the stated bounds; IndexHierarchy.equals is '
           'covered only for depth 2 with 2-4 leaves')
TRACES_QUICK = 10


def _add(c):
    CONDS[c.name] = c
    return c


def uniq_pre(pairs, sym, defaults):
    """Preconditions keeping label pairs distinct, whichever of the two are symbolic."""
    out = []
    for x, y in pairs:
        if x in sym and y in sym:
            out.append(f'{x} != {y}')
        elif x in sym:
            out.append(f'{x} != {defaults[y]}')
        elif y in sym:
            out.append(f'{y} != {defaults[x]}')
    return out


def concretize(v, lo, hi):
    """Bounded case split on a symbolic int (hash() of a symbolic value is over-approximated by
    CrossHair as an arbitrary number, so values that get hashed are made concrete per path)."""
    for k in range(lo, hi + 1):
        if v == k:
            return k
    raise AssertionError('precondition keeps v in range')


def ref_cells_equal(a, b, skipna, nan):
    """Reference: same shape assumed; pairwise equal, NaN==NaN only under skipna."""
    for x, y in zip(a, b):
        xn = x is nan or (isinstance(x, float) and x != x)
        yn = y is nan or (isinstance(y, float) and y != y)
        if xn or yn:
            if not (skipna and xn and yn):
                return False
        elif x != y:
            return False
    return True


# ------------------------------------------------------------------------------------------------
# 1. TypeBlocks.equals over block layouts, every cell in Z u {NaN}

def mk_tb_equals(rows, cols, la, lb):
    n = rows * cols

    def body(env, skipna, **kw):
        sf = env.sf
        from static_frame.core.type_blocks import TypeBlocks
        a = [nan_or(env, kw[f'an{i}'], kw[f'a{i}']) for i in range(n)]
        b = [nan_or(env, kw[f'bn{i}'], kw[f'b{i}']) for i in range(n)]
        # cell i lives at (row i // cols, col i % cols)
        cols_a = [[a[r * cols + c] for r in range(rows)] for c in range(cols)]
        cols_b = [[b[r * cols + c] for r in range(rows)] for c in range(cols)]
        tba = TypeBlocks.from_blocks(layouts.build_blocks(env, cols_a, 'float64', la))
        tbb = TypeBlocks.from_blocks(layouts.build_blocks(env, cols_b, 'float64', lb))
        tba2 = TypeBlocks.from_blocks(layouts.build_blocks(env, cols_a, 'float64', lb))
        got = [env.obs(tba.equals(tbb, skipna=skipna)), env.obs(tbb.equals(tba, skipna=skipna)),
               env.obs(tba.equals(tba2, skipna=skipna))]
        e = ref_cells_equal(a, b, skipna, env.nan)
        exp = [e, e, ref_cells_equal(a, a, skipna, env.nan)]
        return got, exp
    params = [('skipna', 'bool')]
    for i in range(n):
        params += [(f'a{i}', 'int'), (f'an{i}', 'bool'), (f'b{i}', 'int'), (f'bn{i}', 'bool')]
    return Cond(f'tb_equals_{rows}x{cols}_{layouts.name(la)}_{layouts.name(lb)}', params, body,
            functions=['TypeBlocks.equals', 'TypeBlocks._ufunc_binary_operator', 'isna_array', 'TypeBlocks._extract_array'],
            bounds=f'{rows}x{cols} float64 cells, every cell an unbounded int or NaN (solver-chosen); layouts {la} vs {lb}; skipna symbolic',
            route='TypeBlocks.from_blocks(...).equals(other, skipna=...) in both directions and against a re-blocked copy',
            mirror=[('a', 'b')])


for la, lb in [(((1, 1), (1, 1)), ((2, 2),)), (((2, 2),), ((2, 1), (1, 1))), (((1, 1), (2, 1)), ((1, 1), (1, 1)))]:
    _add(mk_tb_equals(1, 2, la, lb))
for la, lb in [(((2, 2), (1, 1)), ((2, 2), (1, 1))), (((1, 1), (2, 2)), ((1, 1), (2, 2))), (((2, 2), (2, 1)), ((2, 3),))]:
    _add(mk_tb_equals(1, 3, la, lb)).timeout = 240
_L2 = layouts.compositions(2)
for _i, la in enumerate(_L2):
    for lb in _L2[_i:]:      # unordered pairs: the body compares in both directions
        c = mk_tb_equals(2, 2, la, lb)
        if c.name not in CONDS:
            c.tier = 'thorough'
            _add(c)


# ------------------------------------------------------------------------------------------------
# 2. Frame.equals: labels, names and the compare_name option; symmetry.
#    The same body is discharged with different subsets of its arguments symbolic (the rest fixed):
#    quick splits cells / labels; thorough makes everything symbolic at once.

FRAME_ARGS = (['na', 'nb'] + [f'a{i}' for i in range(4)] + [f'b{i}' for i in range(4)]
              + ['ia0', 'ia1', 'ib0', 'ib1', 'ca0', 'ca1', 'cb0', 'cb1'])
FRAME_DEFAULTS = dict(na=5, nb=5, a0=1, a1=2, a2=3, a3=4, b0=1, b1=2, b2=3, b3=4,
                      ia0=10, ia1=11, ib0=10, ib1=11, ca0=20, ca1=21, cb0=20, cb1=21,
                      compare_name=True, compare_class=False)


def mk_frame_equals(cls_a, cls_b, sym, tag, tier='quick', timeout=None):
    def body(env, compare_name, compare_class, na, nb, **kw):
        sf = env.sf
        na, nb = concretize(na, 0, 5), concretize(nb, 0, 5)  # names are hashed by name_filter
        A, B = getattr(sf, cls_a), getattr(sf, cls_b)
        ca = [[kw['a0'], kw['a2']], [kw['a1'], kw['a3']]]  # columns
        cb = [[kw['b0'], kw['b2']], [kw['b1'], kw['b3']]]
        # typed arrays: from a plain list static-frame inspects every value's magnitude (one fork per symbolic value)
        arr = lambda xs: env.array(list(xs), 'int64')   # noqa: E731
        fa = A.from_items(zip(arr((kw['ca0'], kw['ca1'])), [arr(c) for c in ca]), index=arr((kw['ia0'], kw['ia1'])), name=na)
        fb = B.from_items(zip(arr((kw['cb0'], kw['cb1'])), [arr(c) for c in cb]), index=arr((kw['ib0'], kw['ib1'])), name=nb)
        got = [env.obs(fa.equals(fb, compare_name=compare_name, compare_class=compare_class)),
               env.obs(fb.equals(fa, compare_name=compare_name, compare_class=compare_class))]
        e = ([kw[f'a{i}'] for i in range(4)] == [kw[f'b{i}'] for i in range(4)]
             and [kw['ia0'], kw['ia1']] == [kw['ib0'], kw['ib1']]
             and [kw['ca0'], kw['ca1']] == [kw['cb0'], kw['cb1']]
             and (not compare_name or na == nb)
             and (not compare_class or cls_a == cls_b))
        return got, [e, e]
    params = [(p, 'bool' if p.startswith('compare') else 'int') for p in sym]
    fixed = {k: v for k, v in FRAME_DEFAULTS.items() if k not in sym}
    pre = uniq_pre([('ia0', 'ia1'), ('ib0', 'ib1'), ('ca0', 'ca1'), ('cb0', 'cb1')], sym, FRAME_DEFAULTS)
    c = Cond(f'frame_equals_{cls_a}_{cls_b}_{tag}', params, body, pre=pre, fixed=fixed,
            ranges={p: (0, 2) for p in ('na', 'nb') if p in sym},  # name_filter hashes the name: realised per value
            functions=['Frame.equals', 'TypeBlocks.equals', 'Index.equals'],
            bounds=f'two 2x2 int64 frames; symbolic (unbounded ints / bools; names in 0..2): {sorted(sym)}; fixed: {sorted(fixed)}',
            route=f'{cls_a}.from_items(...).equals({cls_b}...) both directions',
            mirror=[('a', 'b'), ('ia', 'ib'), ('ca', 'cb'), ('na', 'nb')], tier=tier, timeout=timeout)
    return c


_CELLS = [f'a{i}' for i in range(4)] + [f'b{i}' for i in range(4)]
_add(mk_frame_equals('Frame', 'Frame', _CELLS, 'cells'))
_add(mk_frame_equals('Frame', 'Frame', ['ia0', 'ia1', 'ib0', 'ib1', 'a0', 'b0'], 'index'))
_add(mk_frame_equals('Frame', 'Frame', ['ca0', 'ca1', 'cb0', 'cb1', 'a3', 'b3'], 'columns'))
_add(mk_frame_equals('Frame', 'Frame', ['na', 'nb', 'compare_name'], 'name'))
_add(mk_frame_equals('Frame', 'FrameGO', ['compare_class', 'a1', 'b1'], 'class'))
_add(mk_frame_equals('FrameHE', 'Frame', ['compare_class', 'a2', 'b2', 'cb0'], 'class'))
# (a condition over ALL arguments at once, 18 symbolic inputs, did not finish within 1500 s in the thorough tier and was
# removed: the pairwise splits below cover each interaction the code has: labels x cells, names x flags)
_add(mk_frame_equals('Frame', 'Frame', ['ia0', 'ib0', 'ca1', 'cb1', 'a0', 'b0', 'a3', 'b3'], 'index_columns_cells', tier='thorough', timeout=900))


# ------------------------------------------------------------------------------------------------
# 3. Series.equals with NaN, symmetry and transitivity on triples

def mk_series_triple(n, sym_labels, tier='quick', timeout=None):
    def body(env, skipna, **kw):
        sf = env.sf

        def mk(p):
            vals = [nan_or(env, kw[f'{p}n{i}'], kw[f'{p}{i}']) for i in range(n)]
            labels = [kw[f'{p}i{i}'] for i in range(n)]
            return vals, labels, sf.Series(env.array(vals, 'float64'), index=env.array(labels, 'int64'))
        va, la, sa = mk('a')
        vb, lb, sb = mk('b')
        vc, lc, sc = mk('c')

        def ref(v1, l1, v2, l2):
            return ref_cells_equal(v1, v2, skipna, env.nan) and l1 == l2
        ab = env.obs(sa.equals(sb, skipna=skipna))
        ba = env.obs(sb.equals(sa, skipna=skipna))
        bc = env.obs(sb.equals(sc, skipna=skipna))
        ac = env.obs(sa.equals(sc, skipna=skipna))
        trans_ok = (not (ab and bc)) or ac
        got = [ab, ba, bc, ac, trans_ok]
        exp = [ref(va, la, vb, lb), ref(va, la, vb, lb), ref(vb, lb, vc, lc), ref(va, la, vc, lc), True]
        return got, exp
    params = [('skipna', 'bool')]
    fixed = {}
    pre = []
    for s_ in 'abc':
        for i in range(n):
            params += [(f'{s_}{i}', 'int'), (f'{s_}n{i}', 'bool')]
            if sym_labels:
                params.append((f'{s_}i{i}', 'int'))
            else:
                fixed[f'{s_}i{i}'] = 100 + i
        if sym_labels and n == 2:
            pre.append(f'{s_}i0 != {s_}i1')
    return Cond(f'series_equals_triple_n{n}_{"labels" if sym_labels else "cells"}', params, body, pre=pre, fixed=fixed,
            functions=['Series.equals', 'Index.equals'],
            bounds=f'three float64 Series of {n} cell(s) (each an unbounded int or NaN), labels {"unbounded symbolic ints" if sym_labels else "fixed"}; skipna symbolic',
            route='Series.equals pairwise; symmetry and transitivity asserted', mirror=[('a', 'b'), ('b', 'c')],
            tier=tier, timeout=timeout)


_add(mk_series_triple(1, False))
_add(mk_series_triple(1, True))
_add(mk_series_triple(2, True, tier='thorough', timeout=1500))


# ------------------------------------------------------------------------------------------------
# 4. compare_dtype adds exactly the dtype requirement (int64 vs float64 columns with equal values)

def mk_dtype(dta, dtb):
    def body(env, compare_dtype, a0, a1, b0, b1):
        sf = env.sf
        fa = sf.Frame.from_items((('x', env.array([a0, a1], dta)),))
        fb = sf.Frame.from_items((('x', env.array([b0, b1], dtb)),))
        got = [env.obs(fa.equals(fb, compare_dtype=compare_dtype)), env.obs(fb.equals(fa, compare_dtype=compare_dtype))]
        e = [a0, a1] == [b0, b1] and (not compare_dtype or dta == dtb)
        return got, [e, e]
    return Cond(f'frame_compare_dtype_{dta}_{dtb}', [('compare_dtype', 'bool'), ('a0', 'int'), ('a1', 'int'), ('b0', 'int'), ('b1', 'int')],
            body, functions=['Frame.equals', 'TypeBlocks.equals'],
            ranges={p: (-2 ** 53, 2 ** 53) for p in ('a0', 'a1', 'b0', 'b1')},
            bounds=f'2x1 frames, dtypes {dta}/{dtb}, cells symbolic ints within +-2**53 (float64-exact)',
            route='Frame.equals(compare_dtype=...)', mirror=[('a', 'b')])


_add(mk_dtype('int64', 'float64'))
_add(mk_dtype('int64', 'int64'))
_add(mk_dtype('int64', 'object')).tier = 'thorough'


# ------------------------------------------------------------------------------------------------
# 5. FrameHE / SeriesHE: == and != are plain bools consistent with equals; equal => same hash

def body_he(env, na, nb, **kw):
    sf = env.sf
    kw = dict(kw)
    na, nb = concretize(na, 0, 5), concretize(nb, 0, 5)
    for p in ('ia0', 'ia1', 'ib0', 'ib1', 'ca0', 'ca1', 'cb0', 'cb1'):
        kw[p] = concretize(kw[p], 0, 3)
    arr = lambda xs: env.array(list(xs), 'int64')   # noqa: E731
    fa = sf.FrameHE.from_items(zip((kw['ca0'], kw['ca1']), [arr([kw['a0'], kw['a1']]), arr([kw['a2'], kw['a3']])]), index=(kw['ia0'], kw['ia1']), name=na)
    fb = sf.FrameHE.from_items(zip((kw['cb0'], kw['cb1']), [arr([kw['b0'], kw['b1']]), arr([kw['b2'], kw['b3']])]), index=(kw['ib0'], kw['ib1']), name=nb)
    eq = fa == fb
    ne = fa != fb
    eq_r = fb == fa
    ha, hb = hash(fa), hash(fb)
    hash_ok = (not eq) or ha == hb
    e = ([kw[f'a{i}'] for i in range(4)] == [kw[f'b{i}'] for i in range(4)]
         and [kw['ia0'], kw['ia1']] == [kw['ib0'], kw['ib1']]
         and [kw['ca0'], kw['ca1']] == [kw['cb0'], kw['cb1']] and na == nb)
    got = [isinstance(eq, bool), isinstance(ne, bool), env.obs(eq), env.obs(ne), env.obs(eq_r), hash_ok,
           env.obs(fa.equals(fb, compare_name=True, compare_dtype=True, compare_class=True))]
    return got, [True, True, e, not e, e, True, e]


HE_DEFAULTS = dict(na=1, nb=1, a0=1, a1=2, a2=3, a3=4, b0=1, b1=2, b2=3, b3=4,
                   ia0=0, ia1=1, ib0=0, ib1=1, ca0=2, ca1=3, cb0=2, cb1=3)


def mk_he(sym, tag, tier='quick', timeout=None):
    params = [(p, 'int') for p in sym]
    fixed = {k: v for k, v in HE_DEFAULTS.items() if k not in sym}
    pre = uniq_pre([('ia0', 'ia1'), ('ib0', 'ib1'), ('ca0', 'ca1'), ('cb0', 'cb1')], sym, HE_DEFAULTS)
    lab = [p for p in sym if p[0] in 'icn']
    return Cond(f'frame_he_eq_hash_{tag}', params, body_he, pre=pre, fixed=fixed,
        ranges={p: ((0, 1) if p[0] == 'n' else (0, 3)) for p in lab},
        functions=['FrameHE.__eq__', 'FrameHE.__hash__', 'Frame.equals'],
        bounds=f'two 2x2 FrameHE; symbolic: {sorted(sym)} (cells unbounded ints; labels/names in 0..3 because hash() realises them)',
        route='FrameHE == / != / hash', mirror=[('a', 'b'), ('ia', 'ib'), ('ca', 'cb'), ('na', 'nb')], tier=tier, timeout=timeout)


_add(mk_he(_CELLS, 'cells'))
_add(mk_he(['na', 'nb', 'a0', 'b0'], 'names', timeout=150))
_add(mk_he(['ib0', 'cb1', 'a3', 'b3'], 'labels', timeout=150))
_add(mk_he(['ia0', 'ia1', 'ib0', 'ib1'], 'index', tier='thorough'))
_add(mk_he(['ia0', 'ib0', 'na', 'nb', 'a0', 'b0'], 'labels_names_cells', tier='thorough', timeout=900))


# ------------------------------------------------------------------------------------------------
# 6. SeriesHE: == / hash with index labels that are EQUAL but typed differently (datetime64 units)

def mk_series_he(cls_a, cls_b, tier='quick'):
    def body(env, a0, a1, b0, b1, na, nb):
        sf = env.sf
        na, nb = concretize(na, 0, 1), concretize(nb, 0, 1)
        days = ('2020-01-01', '2020-01-02')
        ia = getattr(sf, cls_a)(days)
        ib = getattr(sf, cls_b)(days)
        sa = sf.SeriesHE(env.array([a0, a1], 'int64'), index=ia, name=na)
        sb = sf.SeriesHE(env.array([b0, b1], 'int64'), index=ib, name=nb)
        from vf import rt
        eq, eq_r, ne = sa == sb, sb == sa, sa != sb
        # __hash__ reads only the (concrete) labels: evaluated outside the tracer, because CrossHair's hash() patch
        # answers with an arbitrary number for objects it does not know (np.datetime64)
        ha, hb = rt.untraced(lambda: (hash(sa), hash(sb)))
        e = [a0, a1] == [b0, b1] and na == nb
        got = [isinstance(eq, bool), env.obs(eq), env.obs(eq_r), env.obs(ne), (not eq) or ha == hb]
        return got, [True, e, e, not e, True]
    return Cond(f'series_he_eq_hash_{cls_a}_{cls_b}', [('a0', 'int'), ('a1', 'int'), ('b0', 'int'), ('b1', 'int'), ('na', 'int'), ('nb', 'int')], body,
            ranges={'na': (0, 1), 'nb': (0, 1)},
            functions=['SeriesHE.__eq__', 'SeriesHE.__hash__', 'Series.equals'],
            bounds=f'two SeriesHE of 2 over the same two days held as {cls_a} / {cls_b} (datetime64 units differ, labels compare equal); cells symbolic ints, names in 0..1',
            route='SeriesHE == / != / hash: equal series hash equal whatever the label dtype', mirror=[('a', 'b'), ('na', 'nb')], tier=tier, timeout=240)


_add(mk_series_he('IndexDate', 'IndexSecond'))
_add(mk_series_he('IndexDate', 'IndexNanosecond'))
_add(mk_series_he('IndexSecond', 'IndexNanosecond', tier='thorough'))


# ------------------------------------------------------------------------------------------------
# 7. Frame.equals over column KINDS and every block layout: value-equal cells held as int64 or float64 (with NaN)

def _lays_for(kinds):
    out = []
    for lay in layouts.compositions(len(kinds)):
        j, ok = 0, True
        for nd, w in lay:
            if len(set(kinds[j:j + w])) > 1:
                ok = False
            j += w
        if ok:
            out.append(lay)
    return out


def body_equals_kinds(env, ka, kbsel, diff, compare_dtype, nanmode, skipna):
    from vf import rt
    ka = concretize(ka, 0, 7)
    kb = ka ^ (0, 1, 4)[concretize(kbsel, 0, 2)]      # same kinds / first column differs / last column differs
    diff = 0 if diff else 3                           # a differing cell in (1, 0), or none
    nanmode = concretize(nanmode, 0, 2)               # no NaN / NaN on the left only / NaN on both sides
    nan_a, nan_b = nanmode >= 1, nanmode == 2
    compare_dtype, skipna = bool(compare_dtype), bool(skipna)

    def run():
        sf = env.sf
        from static_frame.core.type_blocks import TypeBlocks
        kinds_a = [(ka >> c) & 1 for c in range(3)]       # 0 = int64, 1 = float64
        kinds_b = [(kb >> c) & 1 for c in range(3)]
        va = [[1, 2, 3], [4, 5, 6]]
        vb = [[1, 2, 3], [4, 5, 6]]
        if diff < 3:
            vb[1][diff] = 99
        # a NaN in the last cell of a float column of either side (only where that column is float)
        la = [[v for v in row] for row in va]
        lb = [[v for v in row] for row in vb]
        if nan_a and kinds_a[2]:
            la[1][2] = env.nan
        if nan_b and kinds_b[2]:
            lb[1][2] = env.nan
        names = ['int64', 'float64']

        def mk(rows, kinds, lay):
            cols = [[rows[r][c] for r in range(2)] for c in range(3)]
            tb = TypeBlocks.from_blocks(layouts.build_blocks_typed(env, cols, [names[k] for k in kinds], lay))
            return sf.Frame(tb, index=[10, 11], columns=['a', 'b', 'c'])
        a_nan = nan_a and kinds_a[2] == 1
        b_nan = nan_b and kinds_b[2] == 1
        cells_equal = True
        for r in range(2):
            for c in range(3):
                x_nan = a_nan and (r, c) == (1, 2)
                y_nan = b_nan and (r, c) == (1, 2)
                if x_nan or y_nan:
                    if not (x_nan and y_nan and skipna):
                        cells_equal = False
                elif va[r][c] != vb[r][c]:
                    cells_equal = False
        e = cells_equal and ((not compare_dtype) or kinds_a == kinds_b)
        fb = mk(lb, kinds_b, tuple((1, 1) for _ in range(3)))
        got = []
        for lay in _lays_for(kinds_a):
            fa = mk(la, kinds_a, lay)
            got.append([env.obs(fa.equals(fb, compare_dtype=compare_dtype, skipna=skipna)), env.obs(fb.equals(fa, compare_dtype=compare_dtype, skipna=skipna))])
        return got, [[e, e]] * len(got)
    return rt.untraced(run)


_add(Cond('frame_equals_kinds_all_layouts', [('ka', 'int'), ('kbsel', 'int'), ('diff', 'bool'), ('compare_dtype', 'bool'), ('nanmode', 'int'), ('skipna', 'bool')], body_equals_kinds,
        ranges={'ka': (0, 7), 'kbsel': (0, 2), 'nanmode': (0, 2)}, pre=['nanmode == 0 or ka >= 4', 'nanmode > 0 or skipna'],
        functions=['Frame.equals', 'TypeBlocks.equals'],
        bounds='two 2x3 frames; the kind (int64 / float64) of each column of the first symbolic, the second with the same kinds or the first / last column of the other kind, an optional differing cell, NaN on no / the left / both sides, compare_dtype and skipna symbolic; the first frame in EVERY block layout that can hold its kinds',
        route='Frame.equals(compare_dtype, skipna) in both directions == (cells equal, NaN pairs per skipna) and (dtypes equal unless compare_dtype is off), whatever the block layout', timeout=600))


# ------------------------------------------------------------------------------------------------
# 8. equals of INDEX containers (flat, grow-only, hierarchical) and of Series over them: every flag, both directions

IX_POOL = (1, 2, 3, 'a')


def body_index_equals(env, kind_a, kind_b, la, lb, na, nb, compare_name, compare_class, compare_dtype, target):
    from vf import rt
    kind_a, kind_b = concretize(kind_a, 0, 4), concretize(kind_b, 0, 4)
    la, lb, na, nb, target = concretize(la, 0, 3), concretize(lb, 0, 3), concretize(na, 0, 1), concretize(nb, 0, 1), concretize(target, 0, 1)
    compare_name, compare_class, compare_dtype = bool(compare_name), bool(compare_class), bool(compare_dtype)

    def run():
        sf = env.sf
        # label sets: 0 = [1, 2], 1 = [2, 1], 2 = [1, 2, 3], 3 = [1, 'a'] (object labels)
        sets = ([1, 2], [2, 1], [1, 2, 3], [1, 'a'])
        hsets = ([(0, 1), (0, 2)], [(0, 2), (0, 1)], [(0, 1), (0, 2), (1, 3)], [(0, 1), (0, 'a')])

        def mk(kind, which, name):
            if kind == 0:
                return sf.Index(sets[which], name=name), 'Index', sets[which], ('i' if which != 3 else 'O')
            if kind == 1:
                return sf.IndexGO(sets[which], name=name), 'IndexGO', sets[which], ('i' if which != 3 else 'O')
            if kind == 2:
                return sf.Index(env.array([float(x) if not isinstance(x, str) else x for x in sets[which]], 'float64' if which != 3 else 'object'), name=name), 'Index', sets[which], ('f' if which != 3 else 'O')
            if kind == 3:
                return sf.IndexHierarchy.from_labels(hsets[which], name=name), 'IndexHierarchy', hsets[which], 'H'
            # kind 4: the automatically supplied 0..n-1 index of a Series built without labels (no label map)
            n = 2 if which in (0, 1) else (3 if which == 2 else 1)
            return sf.Series(env.array([0] * n, 'int64')).index.rename(name), 'Index', list(range(n)), 'i'
        a, cls_a, labs_a, dt_a = mk(kind_a, la, ('n', 'm')[na])
        b, cls_b, labs_b, dt_b = mk(kind_b, lb, ('n', 'm')[nb])
        comparable = (cls_a == 'IndexHierarchy') == (cls_b == 'IndexHierarchy')
        e = (comparable and labs_a == labs_b and (not compare_name or na == nb) and (not compare_class or cls_a == cls_b)
             and (not compare_dtype or dt_a == dt_b))
        if target == 0:
            got = [env.obs(a.equals(b, compare_name=compare_name, compare_class=compare_class, compare_dtype=compare_dtype)),
                   env.obs(b.equals(a, compare_name=compare_name, compare_class=compare_class, compare_dtype=compare_dtype)),
                   env.obs(a.equals(a.copy() if hasattr(a, 'copy') else a, compare_name=True, compare_class=True, compare_dtype=True))]
            return got, [e, e, True]
        # the same indices carrying equal Series values: Series.equals adds nothing but the index comparison
        sa = sf.Series(env.array(list(range(len(labs_a))), 'int64'), index=a)
        sb = sf.Series(env.array(list(range(len(labs_b))), 'int64'), index=b)
        es = comparable and labs_a == labs_b and (not compare_dtype or dt_a == dt_b) and (not compare_class or cls_a == cls_b or True)
        got = [env.obs(sa.equals(sb, compare_dtype=compare_dtype)), env.obs(sb.equals(sa, compare_dtype=compare_dtype))]
        return got, [es, es]
    return rt.untraced(run)


_add(Cond('index_equals_kinds_and_flags', [('kind_a', 'int'), ('kind_b', 'int'), ('la', 'int'), ('lb', 'int'), ('na', 'int'), ('nb', 'int'),
                                         ('compare_name', 'bool'), ('compare_class', 'bool'), ('compare_dtype', 'bool'), ('target', 'int')], body_index_equals,
        ranges={'kind_a': (0, 4), 'kind_b': (0, 4), 'la': (0, 3), 'lb': (0, 3), 'na': (0, 1), 'nb': (0, 1), 'target': (0, 1)},
        pre=['kind_a <= kind_b', 'target == 0 or (not compare_name and not compare_class and na == 0 and nb == 0)', 'la <= 1 or lb <= 1 or la == lb'],
        functions=['Index.equals', 'IndexHierarchy.equals'],
        bounds='two indices, each Index / IndexGO / float-typed Index / IndexHierarchy / automatically supplied integer index (symbolic) over one of four label sets (same, permuted, longer, object labels), names symbolic; compare_name / compare_class / compare_dtype symbolic; Index.equals in both directions, or Series.equals over them',
        route='Index / IndexHierarchy.equals: true iff same labels in the same order and every requested conjunct (name, class, dtype) holds; symmetric; Series.equals follows its index', timeout=600))



# ------------------------------------------------------------------------------------------------
# 9. hierarchies that SHARE one inner Index object across outer groups (from_product) against hierarchies that do not

def body_hier_shared_inner(env, pos, repl, perm, target, left_product):
    from vf import rt
    pos, repl, target = concretize(pos, 0, 4), concretize(repl, 10, 12), concretize(target, 0, 2)
    perm, left_product = bool(perm), bool(left_product)

    def run():
        sf = env.sf
        base = [(0, 10), (0, 11), (1, 10), (1, 11), (2, 10), (2, 11)]
        other = list(base)
        if pos < 4:
            # one inner label of the first or second outer group replaced (pos 4: identical)
            o, i = other[pos]
            if repl != i and (o, repl) not in other:
                other[pos] = (o, repl)
        if perm:
            other[2], other[3] = other[3], other[2]
        prod = sf.IndexHierarchy.from_product((0, 1, 2), (10, 11))
        lab = sf.IndexHierarchy.from_labels(other)
        a, b = (prod, lab) if left_product else (lab, prod)
        e = base == other
        if target == 0:
            got = [env.obs(a.equals(b)), env.obs(b.equals(a))]
        elif target == 1:
            sa = sf.Series(env.array(list(range(6)), 'int64'), index=a)
            sb = sf.Series(env.array(list(range(6)), 'int64'), index=b)
            got = [env.obs(sa.equals(sb)), env.obs(sb.equals(sa))]
        else:
            fa = sf.FrameHE(env.array([list(range(6))], 'int64'), columns=a)
            fb = sf.FrameHE(env.array([list(range(6))], 'int64'), columns=b)
            got = [env.obs(fa == fb), env.obs(fb == fa)]
            if got[0]:
                got.append(hash(fa) == hash(fb))
                return got, [e, e, True]
        return got, [e, e]
    return rt.untraced(run)


_add(Cond('hierarchy_equals_shared_inner_index', [('pos', 'int'), ('repl', 'int'), ('perm', 'bool'), ('target', 'int'), ('left_product', 'bool')], body_hier_shared_inner,
        ranges={'pos': (0, 4), 'repl': (10, 12), 'target': (0, 2)},
        functions=['IndexLevel.equals', 'IndexHierarchy.equals'],
        bounds='3x2 product hierarchy (from_product: one inner Index object shared by all outer groups) against a from_labels hierarchy with one inner label symbolically replaced (position and label) and / or one group permuted; compared as indices, as Series indices, as FrameHE columns (symbolic), either side first',
        route='IndexHierarchy / Series / FrameHE equality over hierarchies that share inner Index objects: true iff the tuple sequences are equal; symmetric', timeout=400))
