"""C12: sorting permutes whole rows, orders the keys, and is stable.

Real functions executed: Frame.sort_values / sort_index / sort_columns, Series.sort_values /
sort_index, Index.sort, IndexHierarchy.sort, sort_index_for_order.
Sort KEYS are the symbolic inputs (small ranges force ties); payload cells are concrete and distinct
so that any row mix-up or instability is visible.  The NumPy model answers non-stable sort kinds
with ANY valid arrangement of ties (nondeterminism tape), so relying on an unstable sort is caught.
Oracle: Python sorted() (stable) over (key, original position)."""
from vf.cond import Cond
from vf import layouts

CONDS = {}
ASSUMPTIONS = ['keys are ints (no NaN / str keys); payload concrete']
OUTSIDE = ('NaN and string keys (NaN ordering is NumPy-defined); more than 4 rows; 3 key columns; real np.sort algorithms (contract: stable kinds keep ties, others may not)')
TRACES_QUICK = 24


def _add(c):
    CONDS[c.name] = c
    return c


def _conc(v, lo, hi):
    for k in range(lo, hi + 1):
        if v == k:
            return k
    raise AssertionError('out of range')


def install_tape(env, kw, n):
    if env.model:
        env.nondet.install([kw[f'tape{i}'] for i in range(n)])


def stable_order(keys, ascending=True):
    """Positions in sorted order; ties keep input order; descending == exact reverse of ascending."""
    order = sorted(range(len(keys)), key=lambda i: keys[i])
    return order if ascending else order[::-1]


def mk_series_sort(n, tape, tier='quick'):
    def body(env, asc, **kw):
        sf = env.sf
        install_tape(env, kw, tape)
        keys = [kw[f'k{i}'] for i in range(n)]
        labels = [100 + i for i in range(n)]
        s = sf.Series(env.array(keys, 'int64'), index=labels, name='sn')
        r = s.sort_values(ascending=asc)
        o = stable_order(keys, asc)
        got = [env.obs(list(r.index.values)), env.obs(r.values.tolist()), env.obs(r.name)]
        exp = [[labels[i] for i in o], [keys[i] for i in o], 'sn']
        return got, exp
    return Cond(f'series_sort_values_n{n}', [(f'k{i}', 'int') for i in range(n)] + [('asc', 'bool')], body, tape=tape,
            functions=['Series.sort_values'],
            bounds=f'Series of {n} UNBOUNDED symbolic int keys (ties possible), distinct labels; ascending flag symbolic; {tape}-entry tie tape for non-stable sort kinds',
            route='Series.sort_values(ascending): (label, value) pairs kept, stable, descending == reverse', tier=tier, timeout=200)


_add(mk_series_sort(3, 3))
_add(mk_series_sort(4, 4, tier='thorough'))


def mk_series_sort_index(n, tape, tier='quick'):
    def body(env, asc, **kw):
        sf = env.sf
        install_tape(env, kw, tape)
        labels = [kw[f'l{i}'] for i in range(n)]
        vals = [7 + i for i in range(n)]
        s = sf.Series(env.array(vals, 'int64'), index=labels, name='sn')
        r = s.sort_index(ascending=asc)
        o = stable_order(labels, asc)
        return [env.obs(list(r.index.values)), env.obs(r.values.tolist())], [[labels[i] for i in o], [vals[i] for i in o]]
    pre = [f'l{i} != l{j}' for i in range(n) for j in range(i + 1, n)]
    return Cond(f'series_sort_index_n{n}', [(f'l{i}', 'int') for i in range(n)] + [('asc', 'bool')], body, tape=tape, pre=pre,
            functions=['Series.sort_index', 'Index.sort' if False else 'sort_index_for_order'],
            bounds=f'Series of {n} with distinct UNBOUNDED symbolic int labels; ascending flag symbolic',
            route='Series.sort_index(ascending)', tier=tier, timeout=200)


_add(mk_series_sort_index(3, 3))


def mk_frame_sort_values(nrows, layout, nkeys, tape, tier='quick'):
    def body(env, asc, **kw):
        sf = env.sf
        from static_frame.core.type_blocks import TypeBlocks
        install_tape(env, kw, tape)
        ncols = sum(w for _, w in layout)
        # key columns are the LAST nkeys columns; payload columns hold distinct cells
        rows = []
        for r in range(nrows):
            row = [1000 * (r + 1) + c for c in range(ncols - nkeys)] + [kw[f'k{r}{j}'] for j in range(nkeys)]
            rows.append(row)
        cols = [[rows[r][c] for r in range(nrows)] for c in range(ncols)]
        tb = TypeBlocks.from_blocks(layouts.build_blocks(env, cols, 'int64', layout))
        labels = [100 + r for r in range(nrows)]
        columns = [chr(97 + c) for c in range(ncols)]
        f = sf.Frame(tb, index=labels, columns=columns, name='nm')
        key_labels = columns[ncols - nkeys:]
        r_ = f.sort_values(key_labels[0] if nkeys == 1 else key_labels, ascending=asc)
        o = sorted(range(nrows), key=lambda i: tuple(rows[i][ncols - nkeys:]))
        if not asc:
            o = o[::-1]
        got = [env.obs(list(r_.index.values)), env.obs(list(r_.columns.values)), env.obs(r_.values.tolist()), env.obs(r_.name),
               [dt.kind for dt in r_._blocks._dtypes]]
        exp = [[labels[i] for i in o], columns, [rows[i] for i in o], 'nm', ['i'] * ncols]
        return got, exp
    params = [(f'k{r}{j}', 'int') for r in range(nrows) for j in range(nkeys)] + [('asc', 'bool')]
    rng = {f'k{r}{j}': (0, 2) for r in range(nrows) for j in range(nkeys)} if nkeys > 1 else {}
    return Cond(f'frame_sort_values_{nrows}x_{layouts.name(layout)}_keys{nkeys}', params, body, tape=tape, ranges=rng,
            functions=['Frame.sort_values'],
            bounds=f'{nrows}-row int64 frame, layout {layout}; {nkeys} key column(s) with symbolic keys ' + ('in 0..2 (ties forced)' if nkeys > 1 else '(UNBOUNDED ints)') + '; ascending symbolic; tie tape for non-stable kinds',
            route='Frame.sort_values(label | [labels], ascending): whole rows move together, stable, names/columns/dtypes kept', tier=tier, timeout=240)


_add(mk_frame_sort_values(3, ((1, 1), (2, 2)), 1, 3))
_add(mk_frame_sort_values(3, ((2, 3),), 1, 3))
_add(mk_frame_sort_values(3, ((1, 1), (1, 1), (1, 1)), 2, 3))
_add(mk_frame_sort_values(3, ((1, 1), (2, 2)), 2, 3))
_add(mk_frame_sort_values(4, ((1, 1), (2, 2)), 2, 4, tier='thorough'))


def mk_frame_sort_index(nrows, layout, tape, axis, tier='quick'):
    def body(env, asc, **kw):
        sf = env.sf
        from static_frame.core.type_blocks import TypeBlocks
        install_tape(env, kw, tape)
        n = nrows
        labs = [kw[f'l{i}'] for i in range(n)]
        rows = [[1000 * (r + 1) + c for c in range(n)] for r in range(n)]
        cols = [[rows[r][c] for r in range(n)] for c in range(n)]
        tb = TypeBlocks.from_blocks(layouts.build_blocks(env, cols, 'int64', layout))
        other = [50 + i for i in range(n)]
        if axis == 0:
            f = sf.Frame(tb, index=labs, columns=other)
            r_ = f.sort_index(ascending=asc)
            o = stable_order(labs, asc)
            exp = [[labs[i] for i in o], other, [rows[i] for i in o]]
        else:
            f = sf.Frame(tb, index=other, columns=labs)
            r_ = f.sort_columns(ascending=asc)
            o = stable_order(labs, asc)
            exp = [other, [labs[i] for i in o], [[rows[r][i] for i in o] for r in range(n)]]
        return [env.obs(list(r_.index.values)), env.obs(list(r_.columns.values)), env.obs(r_.values.tolist())], exp
    pre = [f'l{i} != l{j}' for i in range(nrows) for j in range(i + 1, nrows)]
    return Cond(f'frame_sort_{"index" if axis == 0 else "columns"}_{nrows}_{layouts.name(layout)}', [(f'l{i}', 'int') for i in range(nrows)] + [('asc', 'bool')], body,
            tape=tape, pre=pre, functions=['Frame.sort_index' if axis == 0 else 'Frame.sort_columns'],
            bounds=f'{nrows}x{nrows} int64 frame, layout {layout}; the sorted axis has distinct UNBOUNDED symbolic int labels; ascending symbolic',
            route='Frame.sort_index / sort_columns: rows (columns) move with their labels', tier=tier, timeout=200)


_add(mk_frame_sort_index(3, ((1, 1), (2, 2)), 3, 0))
_add(mk_frame_sort_index(3, ((1, 1), (2, 2)), 3, 1))
_add(mk_frame_sort_index(3, ((2, 3),), 3, 1))


def body_sort_key_func(env, k0, k1, k2, asc, **kw):
    """key= callable returning an array / a container: order by the transformed keys."""
    sf = env.sf
    install_tape(env, kw, 3)
    keys = [k0, k1, k2]
    labels = [100, 101, 102]
    s = sf.Series(env.array(keys, 'int64'), index=labels)
    r1 = s.sort_values(ascending=asc, key=lambda x: -x.values)          # array
    r2 = s.sort_values(ascending=asc, key=lambda x: x * -1)             # container
    o = stable_order([-k for k in keys], asc)
    e = [[labels[i] for i in o], [keys[i] for i in o]]
    return [[env.obs(list(r1.index.values)), env.obs(r1.values.tolist())], [env.obs(list(r2.index.values)), env.obs(r2.values.tolist())]], [e, e]


_add(Cond('series_sort_values_key_func', [('k0', 'int'), ('k1', 'int'), ('k2', 'int'), ('asc', 'bool')], body_sort_key_func, tape=3,
        functions=['Series.sort_values'],
        bounds='Series of 3 UNBOUNDED symbolic int keys; key functions returning an array and a Series',
        route='Series.sort_values(key=callable)', timeout=200))


def body_hierarchy_sort(env, o0, o1, o2, i0, i1, i2, asc, **kw):
    """Hierarchical labels are ordered lexicographically by depth."""
    sf = env.sf
    install_tape(env, kw, 3)
    o0, o1, o2 = [_conc(v, 0, 1) for v in (o0, o1, o2)]
    i0, i1, i2 = [_conc(v, 0, 2) for v in (i0, i1, i2)]   # labels are hashed by from_labels: bounded case split up front
    tuples = [(o0, i0), (o1, i1), (o2, i2)]
    ih = sf.IndexHierarchy.from_labels(tuples)
    s = sf.Series(env.array([7, 8, 9], 'int64'), index=ih)
    r = s.sort_index(ascending=asc)
    o = sorted(range(3), key=lambda i: tuples[i])
    if not asc:
        o = o[::-1]
    return [env.obs([tuple(t) for t in r.index]), env.obs(r.values.tolist())], [[list(tuples[i]) for i in o], [7 + i for i in o]]


_add(Cond('series_sort_index_hierarchy', [(p, 'int') for p in ('o0', 'o1', 'o2', 'i0', 'i1', 'i2')] + [('asc', 'bool')], body_hierarchy_sort, tape=3,
        ranges={p: (0, 1) for p in ('o0', 'o1', 'o2')} | {p: (0, 2) for p in ('i0', 'i1', 'i2')},
        pre=['(o0, i0) != (o1, i1)', '(o0, i0) != (o2, i2)', '(o1, i1) != (o2, i2)',
             'not (o0 == o2 and o0 != o1)'],
        functions=['Series.sort_index', 'sort_index_for_order', 'IndexHierarchy._extract_iloc'],
        bounds='depth-2 hierarchical index of 3 distinct tuples in tree order, outer labels in 0..1, inner in 0..2',
        route='Series.sort_index on an IndexHierarchy: lexicographic by depth', timeout=300))


# ---------------------------------------------------------------- sort_index / sort_columns with a key function of any returned form

def body_sort_index_key(env, l0, l1, l2, kind, asc, target):
    """key= returns a 1-D array, a 2-D array (one column per sort depth), an Index, or an IndexHierarchy whose depth
    differs from the depth of the index being sorted: the order is lexicographic over ALL returned depths."""
    from vf import rt
    labs = [_conc(v, 0, 3) for v in (l0, l1, l2)]
    kind, asc, target = _conc(kind, 0, 3), bool(asc), _conc(target, 0, 1)

    def run():
        sf = env.sf
        xp = env.xp
        two = lambda l: (l // 2, -l)     # noqa: E731  outer ties (0,1 | 2,3), inner decides, in DEcreasing label order

        def key(ix):
            vals = [int(v) for v in ix.values.tolist()]
            if kind == 0:
                return env.array([-v for v in vals], 'int64')
            if kind == 1:
                return env.array([list(two(v)) for v in vals], 'int64')
            if kind == 2:
                return sf.Index([-v for v in vals])
            return sf.IndexHierarchy.from_labels([two(v) for v in vals])
        sort_key = (lambda l: -l) if kind in (0, 2) else two
        o = sorted(range(3), key=lambda i: sort_key(labs[i]))
        if not asc:
            o = o[::-1]
        if target == 0:
            s = sf.Series(env.array([7, 8, 9], 'int64'), index=labs, name='sn')
            r = s.sort_index(ascending=asc, key=key)
            got = [env.obs(r.index.values.tolist()), env.obs(r.values.tolist()), env.obs(r.name)]
            exp = [[labs[i] for i in o], [7 + i for i in o], 'sn']
        else:
            f = sf.Frame.from_items(((l, env.array([10 * (c + 1), 10 * (c + 1) + 1], 'int64')) for c, l in enumerate(labs)), index=[100, 101], name='nm')
            r = f.sort_columns(ascending=asc, key=key)
            got = [env.obs(r.columns.values.tolist()), env.obs(r.values.tolist()), env.obs(r.index.values.tolist()), env.obs(r.name)]
            exp = [[labs[i] for i in o], [[10 * (i + 1) + row for i in o] for row in range(2)], [100, 101], 'nm']
        return got, exp
    return rt.untraced(run)


_add(Cond('sort_index_key_function_forms', [('l0', 'int'), ('l1', 'int'), ('l2', 'int'), ('kind', 'int'), ('asc', 'bool'), ('target', 'int')], body_sort_index_key,
        ranges={'l0': (0, 3), 'l1': (0, 3), 'l2': (0, 3), 'kind': (0, 3), 'target': (0, 1)},
        pre=['l0 != l1', 'l0 != l2', 'l1 != l2', 'not (l0 // 2 == l2 // 2 and l0 // 2 != l1 // 2)'],
        functions=['sort_index_for_order'],
        bounds='flat index of 3 distinct labels symbolic in 0..3 (outer-key groups kept together); key function returning a 1-D array / a 2-D array / an Index / a depth-2 IndexHierarchy (symbolic); ascending symbolic; Series.sort_index or Frame.sort_columns (symbolic)',
        route='sort_index / sort_columns(key=callable): ordered lexicographically over every depth the key function returns; labels move with their values', timeout=300))


# ---------------------------------------------------------------- key KINDS symbolic, mixed payload, every block layout

SORT_KINDS = (('int64', (5, 3, 4)), ('<U1', ('b', 'a', 'c')), ('float64', (2.5, 0.5, 1.5)), ('bool', (True, False, True)))


def _lays_for(kinds):
    out = []
    for lay in layouts.compositions(len(kinds)):
        j, ok = 0, True
        for nd, w in lay:
            if len(set(kinds[j:j + w])) > 1:
                ok = False
            j += w
        if ok:
            out.append(lay)
    return out


def body_sort_kinds(env, kk, k0, k1, k2, asc, two, **kw):
    from vf import rt
    kk, pk, asc, two = _conc(kk, 0, 3), 1, bool(asc), bool(two)
    sel = [_conc(v, 0, 1) for v in (k0, k1, k2)]
    tape = [bool(kw[f'tape{i}']) for i in range(2)] + [False]

    def run():
        sf = env.sf
        from static_frame.core.type_blocks import TypeBlocks
        keyvals = [SORT_KINDS[kk][1][s] for s in sel]
        payload = list(SORT_KINDS[pk][1])                 # distinct per row when pk != bool; row identity is the index label anyway
        second = [9, 8, 8]
        cols = [payload, keyvals, second]
        dts = [SORT_KINDS[pk][0], SORT_KINDS[kk][0], 'int64']
        kinds = [20 + pk, 10 + kk, 0]
        labels = [10, 11, 12]
        skey = (lambda i: (keyvals[i], second[i])) if two else (lambda i: keyvals[i])
        o = sorted(range(3), key=skey)
        if not asc:
            o = o[::-1]
        exp = [[labels[i] for i in o], ['p', 'k', 'j'], [[payload[i], keyvals[i], second[i]] for i in o], [env.xp.dtype(d).kind for d in dts]]
        got = []
        for lay in _lays_for(kinds):
            if env.model:
                env.nondet.install(list(tape))
            tb = TypeBlocks.from_blocks(layouts.build_blocks_typed(env, cols, dts, lay))
            f = sf.Frame(tb, index=labels, columns=['p', 'k', 'j'])
            r = f.sort_values(['k', 'j'] if two else 'k', ascending=asc)
            got.append([env.obs(r.index.values.tolist()), env.obs(r.columns.values.tolist()), env.obs(r.values.tolist()), [dt.kind for dt in r._blocks._dtypes]])
        return got, [exp] * len(got)
    return rt.untraced(run)


_add(Cond('frame_sort_values_key_kinds_all_layouts', [('kk', 'int'), ('k0', 'int'), ('k1', 'int'), ('k2', 'int'), ('asc', 'bool'), ('two', 'bool')], body_sort_kinds, tape=2,
        ranges={'kk': (0, 3), 'k0': (0, 1), 'k1': (0, 1), 'k2': (0, 1)},
        functions=['Frame.sort_values'],
        bounds='3-row frame (payload, key, second int key); str payload column; kind of the key column symbolic over (int64, str, float64, bool), key values symbolic over two values (ties forced), one or two sort keys, ascending symbolic; every block layout that can hold the kinds; tie tape',
        route='Frame.sort_values(key | [key, second]) on mixed column kinds: whole rows move together (value and type), stable, descending == reverse, dtypes kept, the same over all block layouts', timeout=600))


# ---------------------------------------------------------------- key functions on the AUTOMATIC (0..n-1, map-less) index

def body_sort_index_key_auto(env, v0, v1, v2, v3, kind, asc, target):
    from vf import rt
    ranks = [_conc(v, 0, 2) for v in (v0, v1, v2, v3)]      # the key the function assigns to label i (ties possible)
    kind, asc, target = _conc(kind, 0, 2), bool(asc), _conc(target, 0, 1)

    def run():
        sf = env.sf

        def key(ix):
            vals = [ranks[int(v)] for v in ix.values.tolist()]
            if kind == 0:
                return env.array(vals, 'int64')
            if kind == 1:
                return sf.Index([10 * r + (3 - int(v)) for r, v in zip(vals, ix.values.tolist())])    # distinct, order = (rank, -label)
            return env.array([[r, 0] for r in vals], 'int64')
        labs = [0, 1, 2, 3]
        sort_key = (lambda i: (ranks[i], -i)) if kind == 1 else (lambda i: ranks[i])
        o = sorted(labs, key=sort_key)
        if not asc:
            o = o[::-1]
        if target == 0:
            s = sf.Series(env.array([7, 8, 9, 10], 'int64'), name='sn')          # no index given: automatic index
            r = s.sort_index(ascending=asc, key=key)
            got = [env.obs(r.index.values.tolist()), env.obs(r.values.tolist()), env.obs(r.name)]
            exp = [o, [7 + i for i in o], 'sn']
        else:
            f = sf.Frame(env.array([[1, 2], [3, 4], [5, 6], [7, 8]], 'int64'), name='nm')   # automatic index and columns
            r = f.sort_index(ascending=asc, key=key)
            got = [env.obs(r.index.values.tolist()), env.obs(r.values.tolist()), env.obs(r.name)]
            exp = [o, [[2 * i + 1, 2 * i + 2] for i in o], 'nm']
        return got, exp
    return rt.untraced(run)


_add(Cond('sort_index_key_function_auto_index', [('v0', 'int'), ('v1', 'int'), ('v2', 'int'), ('v3', 'int'), ('kind', 'int'), ('asc', 'bool'), ('target', 'int')], body_sort_index_key_auto,
        ranges={'v0': (0, 2), 'v1': (0, 2), 'v2': (0, 2), 'v3': (0, 2), 'kind': (0, 2), 'target': (0, 1)},
        functions=['sort_index_for_order'],
        bounds='Series / Frame (symbolic) built WITHOUT labels (automatic 0..3 index); key function assigning each label a symbolic rank in 0..2, returned as a 1-D array / an Index / a 2-D array (symbolic); ascending symbolic',
        route='sort_index(key=callable) on the automatic index: ordered by the key (stable, descending == reverse), rows move with their labels', timeout=400))
