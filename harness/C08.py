"""C08: functional update interfaces change only what they address.

Real functions executed: Frame mask/assign/drop/astype selector interfaces -> FrameAssignILoc/
FrameAssignBLoc.__call__, Frame._drop_iloc, Frame._extract_iloc_mask, FrameAsType.__call__,
key_to_ascending_key, slice_to_ascending_slice, TypeBlocks._mask_blocks / _drop_blocks /
_astype_blocks / _assign_from_iloc_by_unit / _assign_from_iloc_by_blocks / _assign_from_bloc_by_blocks /
_key_to_block_slices(retain_key_order=False) / get_block_match, Series assign/drop/mask,
Frame.relabel/rename/insert_before/insert_after.
Cells are concrete and pairwise distinct; KEYS, assigned values and positions are symbolic.
Oracle: copy of the list-of-rows with exactly the addressed cells replaced / removed / marked."""
from vf.cond import Cond
from vf import layouts
from vf.refmodels import obs_container, obs_frame_full, py_positions, coherent_labels

CONDS = {}
ASSUMPTIONS = ['cells concrete and distinct; labels concrete; keys and assigned values symbolic']
OUTSIDE = ('clip/apply-with-function forms; hierarchical labels; shapes beyond 3x4; slice |step| > 3 (quick)')
TRACES_QUICK = 16

L4 = [((1, 1), (2, 2), (1, 1)), ((2, 4),), ((2, 1), (1, 1), (2, 2)), ((2, 3), (1, 1)), ((1, 1), (1, 1), (1, 1), (1, 1)), ((2, 2), (2, 2))]


def _add(c):
    CONDS[c.name] = c
    return c


def _mk_frame(env, nrows, layout):
    sf = env.sf
    from static_frame.core.type_blocks import TypeBlocks
    ncols = sum(w for _, w in layout)
    rows = [[100 * (r + 1) + c for c in range(ncols)] for r in range(nrows)]
    cols = [[rows[r][c] for r in range(nrows)] for c in range(ncols)]
    tb = TypeBlocks.from_blocks(layouts.build_blocks(env, cols, 'int64', layout))
    index = [10 + r for r in range(nrows)]
    columns = [chr(ord('a') + c) for c in range(ncols)]
    f = sf.Frame(tb, index=index, columns=columns, name='nm')
    return f, rows, index, columns


def mk_frame(env, nrows, layout):
    from vf import rt
    return rt.concrete(('C08frame', env.model, nrows, layout), lambda: _mk_frame(env, nrows, layout))


def addressed(rk, ck, nrows, ncols):
    """Sets of addressed row / column positions (key order and repeats are irrelevant for updates)."""
    rp, _ = py_positions(rk, nrows)
    cp, _ = py_positions(ck, ncols)
    return sorted(set(rp)), sorted(set(cp))


def snapshot(env, f):
    return obs_frame_full(env, f)


def run_update(env, op, nrows, layout, rk, ck, value=None):
    """Apply one functional update through the public selector interface and compare with the list
    reference; also assert the original is unchanged."""
    f, rows, index, columns = mk_frame(env, nrows, layout)
    ncols = len(columns)
    before = snapshot(env, f)
    try:
        rp, cp = addressed(rk, ck, nrows, ncols)
        ref_err = None
    except IndexError:
        ref_err = ['raises', 'IndexError']
    if ref_err is None:
        if op == 'mask':
            exp = ['F', index, columns, [[(i in rp and j in cp) for j in range(ncols)] for i in range(nrows)]]
        elif op == 'assign':
            exp = ['F', index, columns, [[(value if (i in rp and j in cp) else rows[i][j]) for j in range(ncols)] for i in range(nrows)]]
        elif op == 'drop':
            # documented compound-key meaning: both keys name what is removed (None removes nothing)
            keep_r = [i for i in range(nrows) if rk is None or i not in rp]
            keep_c = [j for j in range(ncols) if ck is None or j not in cp]
            exp = ['F', [index[i] for i in keep_r], [columns[j] for j in keep_c], [[rows[i][j] for j in keep_c] for i in keep_r]]
        else:
            raise AssertionError(op)
    else:
        exp = ref_err
    try:
        if op == 'mask':
            r = f.mask.iloc[rk, ck]
        elif op == 'assign':
            r = f.assign.iloc[rk, ck](value)
        else:
            r = f.drop.iloc[rk, ck]
        got = obs_container(env, r)
        if got[0] == 'F' and exp[0] == 'F':
            got = got + [coherent_labels(env, r)]
            exp = exp + [True]
    except IndexError:
        got = ['raises', 'IndexError']
    after = snapshot(env, f)
    return [got, after], [exp, before]


FUNCS = {
    'mask': ['Frame._extract_iloc_mask', 'TypeBlocks._mask_blocks', 'TypeBlocks._key_to_block_slices', 'slice_to_ascending_slice'],
    'assign': ['FrameAssignILoc.__call__', 'key_to_ascending_key', 'TypeBlocks._assign_from_iloc_by_unit', 'slice_to_ascending_slice'],
    'drop': ['Frame._drop_iloc', 'TypeBlocks._drop_blocks', 'TypeBlocks._key_to_block_slices', 'slice_to_ascending_slice'],
}


def mk_colslice(op, nrows, layout, step, tier='quick', timeout=None):
    rk = 1 if op != 'drop' else None

    def body(env, start, stop, v=7):
        return run_update(env, op, nrows, layout, rk, slice(start, stop, step), v)
    params = [('start', 'oint'), ('stop', 'oint')] + ([('v', 'int')] if op == 'assign' else [])
    fn = [x for x in FUNCS[op] if step is not None and step < 0 or x != 'slice_to_ascending_slice']
    return Cond(f'{op}_colslice_{nrows}x_{layouts.name(layout)}_step{step}', params, body,
            functions=fn,
            bounds=f'{nrows}x4 int64 frame, layout {layout}; column slice start/stop UNBOUNDED symbolic Optional[int], step = {step}; row key {rk!r}' + ('; assigned element an unbounded symbolic int' if op == 'assign' else ''),
            route=f'Frame.{op}.iloc[{rk!r}, slice(start, stop, {step})]', tier=tier, timeout=timeout)


QUICK_SLICE = [('mask', L4[1]), ('mask', L4[0]), ('assign', L4[0]), ('drop', L4[1])]
for op, lay in QUICK_SLICE:
    for step in (None, 2, -1, -2):
        _add(mk_colslice(op, 2, lay, step, timeout=150))
for op in ('mask', 'assign', 'drop'):
    for lay in layouts.compositions(4)[::3]:
        for step in (None, 1, 2, 3, 4, -1, -2, -3, -4):
            c = mk_colslice(op, 3, lay, step, tier='thorough', timeout=600)
            if c.name not in CONDS:
                _add(c)


def mk_collist(op, nrows, layout, tier='quick'):
    def body(env, k0, k1, row, v=7):
        rk = row if op != 'drop' else [row]
        return run_update(env, op, nrows, layout, rk, [k0, 2, k1], v)
    params = [('k0', 'int'), ('k1', 'int'), ('row', 'int')] + ([('v', 'int')] if op == 'assign' else [])
    return Cond(f'{op}_collist_{nrows}x_{layouts.name(layout)}', params, body, ranges={'row': (0, nrows - 1), 'k0': (-6, 5), 'k1': (-6, 5)}, timeout=240,
            functions=FUNCS[op][:3],
            bounds=f'{nrows}x4 int64 frame, layout {layout}; column list [k0, 2, k1], k0/k1 symbolic ints in -6..5 (unsorted, negative, repeated, out of range; the library hashes them, so the solver enumerates values); row in range',
            route=f'Frame.{op}.iloc[row, [k0, 2, k1]]', tier=tier)


for op in ('mask', 'assign', 'drop'):
    _add(mk_collist(op, 2, L4[3]))
    _add(mk_collist(op, 2, L4[0], tier='thorough'))


def mk_colmask(op, nrows, layout, tier='quick'):
    def body(env, m0, m1, m2, m3, r0, v=7):
        ck = env.array([m0, m1, m2, m3], 'bool')
        rk = env.array([r0, True] + [False] * (nrows - 2), 'bool')
        f, rows, index, columns = mk_frame(env, nrows, layout)
        before = snapshot(env, f)
        rp = [i for i, b in enumerate([r0, True] + [False] * (nrows - 2)) if b]
        cp = [j for j, b in enumerate([m0, m1, m2, m3]) if b]
        if op == 'mask':
            r = f.mask.iloc[rk, ck]
            exp = ['F', index, columns, [[(i in rp and j in cp) for j in range(4)] for i in range(nrows)]]
        elif op == 'assign':
            r = f.assign.iloc[rk, ck](v)
            exp = ['F', index, columns, [[(v if (i in rp and j in cp) else rows[i][j]) for j in range(4)] for i in range(nrows)]]
        else:
            r = f.drop.iloc[rk, ck]
            keep_r = [i for i in range(nrows) if i not in rp]
            keep_c = [j for j in range(4) if j not in cp]
            exp = ['F', [index[i] for i in keep_r], [columns[j] for j in keep_c], [[rows[i][j] for j in keep_c] for i in keep_r]]
        return [obs_container(env, r), snapshot(env, f)], [exp, before]
    params = [(f'm{i}', 'bool') for i in range(4)] + [('r0', 'bool')] + ([('v', 'int')] if op == 'assign' else [])
    return Cond(f'{op}_boolkeys_{nrows}x_{layouts.name(layout)}', params, body,
            functions=FUNCS[op][:3],
            bounds=f'{nrows}x4 int64 frame, layout {layout}; Boolean array keys on both axes, every column-mask value symbolic',
            route=f'Frame.{op}.iloc[bool_array, bool_array]', tier=tier)


for op in ('mask', 'assign', 'drop'):
    _add(mk_colmask(op, 2, L4[2]))
    _add(mk_colmask(op, 2, L4[0], tier='thorough'))


# ---- assign with a labelled Series value: aligned BY LABEL, whatever the order of the column key

def mk_assign_series(nrows, layout, tier='quick'):
    def body(env, k0, k1, v0, v1, p):
        sf = env.sf
        f, rows, index, columns = mk_frame(env, nrows, layout)
        before = snapshot(env, f)
        # two distinct in-range column positions chosen by the solver, in any order
        key = [k0, k1]
        labels = [columns[k0], columns[k1]]
        if p:   # the value's labels come in the opposite order of the key
            value = sf.Series(env.array([v1, v0], 'int64'), index=[labels[1], labels[0]])
        else:
            value = sf.Series(env.array([v0, v1], 'int64'), index=labels)
        r = f.assign.iloc[1, key](value)
        want = {k0: v0, k1: v1}
        exp = ['F', index, columns, [[(want[j] if (i == 1 and j in want) else rows[i][j]) for j in range(4)] for i in range(nrows)]]
        return [obs_container(env, r), snapshot(env, f)], [exp, before]
    return Cond(f'assign_series_value_{nrows}x_{layouts.name(layout)}', [('k0', 'int'), ('k1', 'int'), ('v0', 'int'), ('v1', 'int'), ('p', 'bool')], body,
            ranges={'k0': (0, 3), 'k1': (0, 3)}, pre=['k0 != k1'],
            functions=['FrameAssignILoc.__call__', 'Frame._reindex_other_like_iloc', 'TypeBlocks._assign_from_iloc_by_unit'],
            bounds=f'{nrows}x4 frame, layout {layout}; two distinct column positions (any order) symbolic in 0..3; Series value with matching labels in either order, values unbounded symbolic ints',
            route='Frame.assign.iloc[1, [k0, k1]](Series)', tier=tier, timeout=180)


_add(mk_assign_series(2, L4[0]))
_add(mk_assign_series(2, L4[1]))


# ---- assign.bloc with a Frame value whose block layout differs from the target's

def mk_assign_bloc(nrows, layout, vlayout, tier='quick'):
    def body(env, **kw):
        sf = env.sf
        from static_frame.core.type_blocks import TypeBlocks
        f, rows, index, columns = mk_frame(env, nrows, layout)
        before = snapshot(env, f)
        mask_rows = [[kw[f'b{i}{j}'] for j in range(4)] for i in range(nrows)]
        mask_cols = [[mask_rows[i][j] for i in range(nrows)] for j in range(4)]
        key = sf.Frame(TypeBlocks.from_blocks(layouts.build_blocks(env, mask_cols, 'bool', ((2, 4),))), index=index, columns=columns)
        vrows = [[-(10 * (i + 1) + j) for j in range(4)] for i in range(nrows)]
        vcols = [[vrows[i][j] for i in range(nrows)] for j in range(4)]
        value = sf.Frame(TypeBlocks.from_blocks(layouts.build_blocks(env, vcols, 'int64', vlayout)), index=index, columns=columns)
        r = f.assign.bloc[key](value)
        exp = ['F', index, columns, [[(vrows[i][j] if mask_rows[i][j] else rows[i][j]) for j in range(4)] for i in range(nrows)]]
        return [obs_container(env, r), snapshot(env, f)], [exp, before]
    params = [(f'b{i}{j}', 'bool') for i in range(nrows) for j in range(4)]
    return Cond(f'assign_bloc_frame_{nrows}x_{layouts.name(layout)}_{layouts.name(vlayout)}', params, body,
            functions=['FrameAssignBLoc.__call__', 'TypeBlocks._assign_from_bloc_by_blocks', 'get_block_match'],
            bounds=f'{nrows}x4 frame, target layout {layout}, value-frame layout {vlayout}; every cell of the Boolean key symbolic',
            route='Frame.assign.bloc[bool Frame](Frame)', tier=tier)


_add(mk_assign_bloc(1, ((2, 2), (1, 1), (1, 1)), ((1, 1), (1, 1), (1, 1), (1, 1))))
_add(mk_assign_bloc(1, ((1, 1), (2, 3)), ((2, 2), (2, 2))))
_add(mk_assign_bloc(2, ((2, 3), (1, 1)), ((1, 1), (2, 2), (1, 1)), tier='thorough'))


# ---- astype on a symbolic column selection: only addressed columns change dtype

def mk_astype(nrows, layout, tier='quick'):
    def body(env, m0, m1, m2, m3):  # NOTE: an ndarray key makes FrameAsType.__call__ raise ValueError (`key == NULL_SLICE`): outside
        f, rows, index, columns = mk_frame(env, nrows, layout)
        before = snapshot(env, f)
        sel = [m0, m1, m2, m3]
        r = f.astype[[c for c, b in zip(columns, sel) if b]](float)
        exp = ['F', index, columns, rows, ['f' if b else 'i' for b in sel], 'nm']
        return [obs_frame_full(env, r), snapshot(env, f)], [exp, before]
    return Cond(f'astype_labellist_{nrows}x_{layouts.name(layout)}', [(f'm{i}', 'bool') for i in range(4)], body,
            functions=['FrameAsType.__call__', 'TypeBlocks._astype_blocks'],
            bounds=f'{nrows}x4 int64 frame, layout {layout}; label-list column key, membership of every column symbolic',
            route='Frame.astype[list of labels](float)', tier=tier)


_add(mk_astype(2, L4[0]))
_add(mk_astype(2, L4[3]))


def mk_astype_slice(nrows, layout, step, tier='quick'):
    def body(env, start, stop):
        from static_frame.core.type_blocks import TypeBlocks
        f, rows, index, columns = mk_frame(env, nrows, layout)
        tb = TypeBlocks.from_blocks(f._blocks._astype_blocks(slice(start, stop, step), float))
        cp = py_positions(slice(start, stop, step), 4)[0]
        got = [env.obs(tb.values.tolist()), [dt.kind for dt in tb._dtypes]]
        return got, [rows, ['f' if j in cp else 'i' for j in range(4)]]
    return Cond(f'astype_blocks_slice_{nrows}x_{layouts.name(layout)}_step{step}', [('start', 'oint'), ('stop', 'oint')], body,
            functions=['TypeBlocks._astype_blocks', 'TypeBlocks._key_to_block_slices'],
            bounds=f'{nrows}x4 int64 TypeBlocks, layout {layout}; positional column slice start/stop UNBOUNDED symbolic, step = {step}',
            route='TypeBlocks._astype_blocks(slice, float) (the positional core of Frame.astype)', tier=tier)


for step in (None, -1, -2):
    _add(mk_astype_slice(2, L4[2], step))


# ---- Series functional updates

def mk_series(step, tier='quick'):
    def body(env, start, stop, v):
        from vf import rt
        sf = env.sf
        vals = [7, 8, 9, 10]
        labels = [3, 1, 4, 2]
        s = rt.concrete(('C08series', env.model), lambda: sf.Series(env.array(vals, 'int64'), index=labels, name='sn'))
        key = slice(start, stop, step)
        pos = set(py_positions(key, 4)[0])
        got = [obs_container(env, s.assign.iloc[key](v)), obs_container(env, s.drop.iloc[key]), obs_container(env, s.mask.iloc[key]),
               obs_container(env, s)]
        keep = [i for i in range(4) if i not in pos]
        exp = [['S', labels, [v if i in pos else vals[i] for i in range(4)], 'sn'],
               ['S', [labels[i] for i in keep], [vals[i] for i in keep], 'sn'],
               ['S', labels, [i in pos for i in range(4)], None],  # a mask is a new Boolean container; its name is not carried
               ['S', labels, vals, 'sn']]
        return got, exp
    return Cond(f'series_assign_drop_mask_step{step}', [('start', 'oint'), ('stop', 'oint'), ('v', 'int')], body,
            functions=['SeriesAssign.__call__', 'Series._drop_iloc', 'Series._extract_iloc_mask'],
            bounds=f'Series of 4; slice start/stop and the assigned element UNBOUNDED symbolic, step = {step}',
            route='Series.assign.iloc[slice](v), Series.drop.iloc[slice], Series.mask.iloc[slice]', tier=tier, timeout=240)


for _st in (None, -2):
    _add(mk_series(_st))
for _st in (2, -1, 3, -3):
    _add(mk_series(_st, tier='thorough'))


# ---- relabel / rename / insert: only labels, names or the inserted column change

def body_relabel_insert(env, pos, newlab, nm):
    sf = env.sf
    f, rows, index, columns = mk_frame(env, 2, L4[0])
    before = snapshot(env, f)
    lab = None
    for k in range(4):
        if pos == k:
            lab = columns[k]
    for k in range(0, 3):
        if nm == k:
            nm = k
    r1 = f.relabel(columns={lab: newlab})
    r2 = f.rename(nm)
    ins = sf.Series(env.array([-1, -2], 'int64'), index=index, name='zz')
    r3 = f.insert_before(lab, ins)
    r4 = f.insert_after(lab, ins)
    p = columns.index(lab)
    newcols = [newlab if c == lab else c for c in columns]
    got = [obs_frame_full(env, r1), obs_frame_full(env, r2), obs_container(env, r3), obs_container(env, r4), snapshot(env, f)]
    exp = [['F', index, newcols, rows, ['i'] * 4, 'nm'], ['F', index, columns, rows, ['i'] * 4, nm],
           ['F', index, columns[:p] + ['zz'] + columns[p:], [rows[i][:p] + [-(i + 1)] + rows[i][p:] for i in range(2)]],
           ['F', index, columns[:p + 1] + ['zz'] + columns[p + 1:], [rows[i][:p + 1] + [-(i + 1)] + rows[i][p + 1:] for i in range(2)]],
           before]
    return got, exp


_add(Cond('relabel_rename_insert', [('pos', 'int'), ('newlab', 'int'), ('nm', 'int')], body_relabel_insert,
        ranges={'pos': (0, 3), 'nm': (0, 2)},
        functions=['Frame.relabel', 'Frame.rename', 'Frame._insert'],
        bounds='2x4 frame; position of the relabelled/insertion column symbolic in 0..3, new label an unbounded symbolic int, new name in 0..2',
        route='Frame.relabel(columns={label: new}), Frame.rename(name), Frame.insert_before/after(label, Series)', timeout=240))



# ---------------------------------------------------------------- column KINDS and value kind symbolic, every block layout

UPD_KINDS = (('int64', (3, 4)), ('float64', (1.5, 2.5)), ('bool', (True, False)), ('<U1', ('x', 'y')))
UPD_VALUES = (9, 0.5, True, 'zz', None)
UPD_ROW_KEYS = (0, 1, slice(None))


def _lays_for(kinds):
    out = []
    for lay in layouts.compositions(len(kinds)):
        j, ok = 0, True
        for nd, w in lay:
            if len(set(kinds[j:j + w])) > 1:
                ok = False
            j += w
        if ok:
            out.append(lay)
    return out


def _pick(seq, i):
    for k in range(len(seq)):
        if i == k:
            return seq[k]
    raise AssertionError('out of range')


def body_update_kinds(env, k1, k2, col, rk, vk, op):
    from vf import rt
    kinds = [0, _pick((0, 1, 2, 3), k1), _pick((0, 1, 2, 3), k2)]
    col, rkey, value, op = _pick((0, 1, 2), col), _pick(UPD_ROW_KEYS, rk), _pick(UPD_VALUES, vk), _pick(('assign', 'mask', 'drop'), op)

    def run():
        sf = env.sf
        from static_frame.core.type_blocks import TypeBlocks
        cols = [list(UPD_KINDS[k][1]) for k in kinds]
        cols[0] = [3, 4]
        rows = [[cols[c][r] for c in range(3)] for r in range(2)]
        index, columns = [10, 11], ['a', 'b', 'c']
        dts = [UPD_KINDS[k][0] for k in kinds]
        hit_rows = [0, 1] if isinstance(rkey, slice) else [rkey]
        if op == 'assign':
            exp = ['F', index, columns, [[(value if (r in hit_rows and c == col) else rows[r][c]) for c in range(3)] for r in range(2)],
                   [('?' if c == col else env.xp.dtype(dts[c]).kind) for c in range(3)]]
        elif op == 'mask':
            exp = ['F', index, columns, [[(r in hit_rows and c == col) for c in range(3)] for r in range(2)], ['b'] * 3]
        else:
            keep_r = [r for r in range(2) if r not in hit_rows]
            keep_c = [c for c in range(3) if c != col]
            exp = ['F', [index[r] for r in keep_r], [columns[c] for c in keep_c],
                   [[rows[r][c] for c in keep_c] for r in keep_r] if keep_r else [], [env.xp.dtype(dts[c]).kind for c in keep_c]]
        got = []
        for lay in _lays_for(kinds):
            tb = TypeBlocks.from_blocks(layouts.build_blocks_typed(env, cols, dts, lay))
            f = sf.Frame(tb, index=index, columns=columns)
            before = [env.obs(f.values.tolist()), [dt.kind for dt in f._blocks._dtypes]]
            if op == 'assign':
                r = f.assign.iloc[rkey, col](value)
            elif op == 'mask':
                r = f.mask.iloc[rkey, col]
            else:
                r = f.drop.iloc[rkey, col]
            kinds_got = [dt.kind for dt in r._blocks._dtypes]
            if op == 'assign':
                kinds_got[col] = '?'     # the dtype of the assigned column is C07's subject; its CELLS are checked here
            vals = env.obs(r.values.tolist()) if r.shape[0] and r.shape[1] else []
            got.append([['F', env.obs(r.index.values.tolist()), env.obs(r.columns.values.tolist()), vals, kinds_got],
                        [env.obs(f.values.tolist()), [dt.kind for dt in f._blocks._dtypes]] == before])
        return got, [[exp, True]] * len(got)
    return rt.untraced(run)


def _mk_update_kinds(tag, pre, note):
    return Cond('update_column_kinds_all_layouts_' + tag, [('k1', 'int'), ('k2', 'int'), ('col', 'int'), ('rk', 'int'), ('vk', 'int'), ('op', 'int')], body_update_kinds,
        ranges={'k1': (0, 3), 'k2': (1, 3), 'col': (0, 2), 'rk': (0, len(UPD_ROW_KEYS) - 1), 'vk': (0, len(UPD_VALUES) - 1), 'op': (0, 2)},
        pre=pre, functions=['TypeBlocks.drop'] if tag != 'assign' else [],
        bounds='2x3 frame; kinds of the 2nd and 3rd column symbolic over (int64, float64, bool, str); ' + note + '; EVERY block layout that can hold the kinds',
        route='assign / mask / drop on mixed column kinds: exactly the addressed cells change (value and type of all others kept, dtypes of untouched columns kept), the original is unchanged, the same over all block layouts', timeout=600)


_add(_mk_update_kinds('assign', ['op == 0', 'rk != 1'], 'assign at a symbolic row key (0, :) and column; assigned value symbolic over (9, 0.5, True, "zz", None)'))
_add(_mk_update_kinds('mask_drop', ['op != 0', 'vk == 0'], 'mask / drop (symbolic) at a symbolic row key (0, 1, :) and column'))


# ---------------------------------------------------------------- bloc assignment with every value form over every block layout

def body_bloc_forms(env, b0, b1, b2, b3, b4, form):
    """assign.bloc[Boolean Frame] with an element, a 2-D array, a Frame, a Series keyed by (row, column) pairs, and apply(func);
    one-row key pattern symbolic (4 cells of row 0 + one cell of row 1); the target frame in EVERY block layout."""
    from vf import rt
    flags = [[bool(b0), bool(b1), bool(b2), bool(b3)], [False, False, bool(b4), False]]
    form = _pick((0, 1, 2, 3, 4), form)

    def run():
        sf = env.sf
        from static_frame.core.type_blocks import TypeBlocks
        rows = [[100 * (r + 1) + c for c in range(4)] for r in range(2)]
        cols = [[rows[r][c] for r in range(2)] for c in range(4)]
        index, columns = [10, 11], ['a', 'b', 'c', 'd']
        vals = [[-(10 * (r + 1) + c) for c in range(4)] for r in range(2)]
        key_cols = [[flags[r][c] for r in range(2)] for c in range(4)]
        hit = [(r, c) for r in range(2) for c in range(4) if flags[r][c]]
        if form == 0:
            new = lambda r, c: -7        # noqa: E731
        elif form == 4:
            new = lambda r, c: -rows[r][c]     # noqa: E731
        else:
            new = lambda r, c: vals[r][c]      # noqa: E731
        exp = ['F', index, columns, [[(new(r, c) if flags[r][c] else rows[r][c]) for c in range(4)] for r in range(2)]]
        got = []
        for lay in layouts.compositions(4):
            if len({nd for nd, w in lay if w == 1}) > 1:
                continue       # per width pattern: all one-column blocks 1-D, or all 2-D
            f = sf.Frame(TypeBlocks.from_blocks(layouts.build_blocks(env, cols, 'int64', lay)), index=index, columns=columns)
            key = sf.Frame(TypeBlocks.from_blocks(layouts.build_blocks(env, key_cols, 'bool', ((2, 4),))), index=index, columns=columns)
            before = snapshot(env, f)
            if form == 0:
                r = f.assign.bloc[key](-7)
            elif form == 1:
                r = f.assign.bloc[key](env.array(vals, 'int64'))
            elif form == 2:
                r = f.assign.bloc[key](sf.Frame(env.array(vals, 'int64'), index=index, columns=columns))
            elif form == 3:
                if not hit:
                    got.append([exp, True])
                    continue
                ser = sf.Series(env.array([vals[r_][c] for r_, c in hit], 'int64'), index=[(index[r_], columns[c]) for r_, c in hit])
                r = f.assign.bloc[key](ser)
            else:
                r = f.assign.bloc[key].apply(lambda x: -x)
            got.append([obs_container(env, r), snapshot(env, f) == before])
        return got, [[exp, True]] * len(got)
    return rt.untraced(run)


_add(Cond('assign_bloc_value_forms_all_layouts', [(f'b{i}', 'bool') for i in range(5)] + [('form', 'int')], body_bloc_forms, ranges={'form': (0, 4)},
        functions=['FrameAssignBLoc.__call__', 'TypeBlocks._assign_from_bloc_by_coordinate'],
        bounds='2x4 int64 frame in every block layout (one-column blocks all 1-D or all 2-D); Boolean-frame key with 5 symbolic cells; value form symbolic over element / 2-D array / Frame / Series keyed by (row, column) / apply(function)',
        route='Frame.assign.bloc[key](value | apply): exactly the True cells are replaced, each by the value meant for ITS (row, column); the original is unchanged', timeout=400))


# ---------------------------------------------------------------- names (and level names) survive every functional update, flat and hierarchical

def body_names_kept(env, hier, op, k):
    from vf import rt
    hier, op, k = bool(hier), _pick(tuple(range(9)), op), _pick((0, 1, 2), k)

    def run():
        sf = env.sf
        if hier:
            index = sf.IndexHierarchy.from_labels([('a', 1), ('a', 2), ('b', 1)], name=('outer', 'inner'))
            columns = sf.IndexHierarchy.from_labels([('x', 1), ('x', 2), ('y', 1)], name=('co', 'ci'))
        else:
            index = sf.Index([10, 11, 12], name='rows')
            columns = sf.Index(['p', 'q', 'r'], name='cols')
        f = sf.Frame(env.array([[1, 2, 3], [4, 5, 6], [7, 8, 9]], 'int64'), index=index, columns=columns, name='fname')
        s = f.iloc[:, 0].rename('sname')
        ops = [lambda: f.drop.iloc[k], lambda: f.drop.iloc[:, k], lambda: f.drop.iloc[[k, (k + 1) % 3]], lambda: f.mask.iloc[k, k],
               lambda: f.assign.iloc[k, k](0), lambda: f.astype.iloc[:, k](float) if hasattr(f.astype, 'iloc') else f.astype[f.columns.values.tolist()[k] if not hier else tuple(f.columns.values.tolist()[k])](float),
               lambda: s.drop.iloc[k], lambda: s.assign.iloc[k](0), lambda: s.mask.iloc[k]]
        r = ops[op]()
        is_series = op >= 6
        if op in (3, 8):
            r = r.rename('fname' if op == 3 else 'sname')   # mask returns a NEW Boolean container (same labels); its own name is not the subject
        if is_series:
            got = [env.obs(r.name), env.obs(r.index.name), list(getattr(r.index, 'names', ())) if hier else None]
            exp = ['sname' if True else None, env.obs(index.name), list(index.names) if hier else None]
        else:
            got = [env.obs(r.name), env.obs(r.index.name), env.obs(r.columns.name), list(r.index.names) if hier else None, list(r.columns.names) if hier else None]
            exp = ['fname', env.obs(index.name), env.obs(columns.name), list(index.names) if hier else None, list(columns.names) if hier else None]
        return got, exp
    return rt.untraced(run)


_add(Cond('names_kept_by_updates', [('hier', 'bool'), ('op', 'int'), ('k', 'int')], body_names_kept, ranges={'op': (0, 8), 'k': (0, 2)},
        functions=['Frame._drop_iloc'],
        bounds='3x3 frame (and a column Series of it) with named flat or named depth-2 hierarchical index and columns (symbolic); drop rows / drop columns / drop a row list / mask / assign / astype on the Frame, drop / assign / mask on the Series (symbolic), position symbolic',
        route='functional updates keep the container name, the index / columns names and, for hierarchical labels, the level names', timeout=300))


# ---------------------------------------------------------------- E3: unbounded second opinion on the integer kernel

def extra_queries(tier):
    """slice_to_ascending_slice translated from its CURRENT source (AST -> z3): for ALL integers start,
    stop, size >= 0 and positions i, the ascending slice selects exactly the positions of the key."""
    from vf import e3, world
    e3.validate_spec()
    steps = (-1, -2, -3, 2, None) if tier == 'quick' else (-1, -2, -3, -4, -5, -7, -8, 1, 2, 3, None)
    return e3.check_ascending(world.REPO, steps=steps)


def extra_replay(rec):
    from vf import e3, world
    return e3.replay_ascending(world.REPO, rec['args'])
