"""C06: index set algebra and label alignment of binary operators.

Real functions executed: Series._ufunc_binary_operator, Frame._ufunc_binary_operator,
apply_binary_operator, IndexCorrespondence.from_correspondence, Series.reindex, Frame.reindex,
TypeBlocks.resize_blocks / _ufunc_binary_operator, Index.union/intersection/difference,
_ufunc_set_1d, union1d / intersect1d / setdiff1d.
Symbolic: the labels of the right operand (so the solver chooses overlapping / disjoint / permuted),
cells, and the order of both operands.  Oracle: dictionary label -> value."""
import operator

from vf.cond import Cond

CONDS = {}
ASSUMPTIONS = ['labels ints; cells ints (float arithmetic is not modelled: +, -, comparisons and &,| only)']
OUTSIDE = ('float arithmetic, *, /, ** and matmul; string dtypes; hierarchical labels (the 2-D structured-array set path is C-layout dependent); more than 3 labels per operand')
TRACES_QUICK = 24

M = 'NaN'


def _add(c):
    CONDS[c.name] = c
    return c


def concretize(v, lo, hi):
    for k in range(lo, hi + 1):
        if v == k:
            return k
    raise AssertionError('out of range')


OPS = {'add': operator.add, 'sub': operator.sub, 'lt': operator.lt, 'eq': operator.eq}


def mk_series_binop(opname, tier='quick'):
    def body(env, y0, y1, y2, a0, a1, b0, b1, b2, pa, pb):
        sf = env.sf
        la = [0, 1]
        lb = [concretize(y0, 0, 3), concretize(y1, 0, 3), concretize(y2, 0, 3)]
        va = {0: a0, 1: a1}
        vb = {lb[0]: b0, lb[1]: b1, lb[2]: b2}
        # operand label orders: optionally reversed (the label->value mapping must not depend on it)
        oa = la[::-1] if pa else la
        ob = lb[::-1] if pb else lb
        sa = sf.Series(env.array([va[l] for l in oa], 'int64'), index=oa)
        sb = sf.Series(env.array([vb[l] for l in ob], 'int64'), index=ob)
        fn = OPS[opname]
        r = fn(sa, sb)
        got = sorted([[env.obs(l), env.obs(v)] for l, v in zip(r.index.values.tolist(), r.values.tolist())], key=lambda t: t[0])
        labels = sorted(set(la) | set(lb))
        exp = []
        for l in labels:
            if l in va and l in vb:
                exp.append([l, fn(va[l], vb[l])])
            else:
                exp.append([l, (False if opname in ('lt', 'eq') else M)])
        out = [got, len(r)]
        ref = [exp, len(labels)]
        if oa == ob:
            # equal indices keep their order and the non-missing dtype
            out.append([env.obs(r.index.values.tolist()), r.dtype.kind])
            ref.append([oa, 'b' if opname in ('lt', 'eq') else 'i'])
        return out, ref
    return Cond(f'series_binop_{opname}', [('y0', 'int'), ('y1', 'int'), ('y2', 'int'), ('a0', 'int'), ('a1', 'int'), ('b0', 'int'), ('b1', 'int'), ('b2', 'int'), ('pa', 'bool'), ('pb', 'bool')], body,
            ranges={'y0': (0, 3), 'y1': (0, 3), 'y2': (0, 3)}, pre=['y0 != y1', 'y0 != y2', 'y1 != y2'],
            functions=['Series._ufunc_binary_operator', 'IndexCorrespondence.from_correspondence', 'Series.reindex'],
            bounds='Series of 2 (labels 0,1) op Series of 3 (labels symbolic in 0..3: overlap / disjoint / permuted), cells UNBOUNDED symbolic ints, each operand optionally reversed',
            route=f'Series {opname} Series: result labelled by the union, op(a, b) where both have the label, missing marker elsewhere; mapping independent of operand order', tier=tier, timeout=300)


_add(mk_series_binop('add'))
_add(mk_series_binop('lt'))
_add(mk_series_binop('sub')).tier = 'thorough'
_add(mk_series_binop('eq')).tier = 'thorough'


def mk_series_same_index(tier='quick'):
    def body(env, a0, a1, a2, b0, b1, b2, k):
        sf = env.sf
        labels = [7, 3, 5]
        sa = sf.Series(env.array([a0, a1, a2], 'int64'), index=labels, name='x')
        sb = sf.Series(env.array([b0, b1, b2], 'int64'), index=labels)
        out, ref = [], []
        for name, fn in (('add', operator.add), ('sub', operator.sub), ('ge', operator.ge), ('ne', operator.ne)):
            r = fn(sa, sb)
            out.append([env.obs(r.index.values.tolist()), env.obs(r.values.tolist())])
            ref.append([labels, [fn(x, y) for x, y in zip([a0, a1, a2], [b0, b1, b2])]])
        # scalar and reflected forms
        r = k - sa
        out.append(env.obs(r.values.tolist())); ref.append([k - a0, k - a1, k - a2])
        r = sa + env.array([b0, b1, b2], 'int64')      # unlabelled array: by position
        out.append(env.obs(r.values.tolist())); ref.append([a0 + b0, a1 + b1, a2 + b2])
        return out, ref
    return Cond('series_binop_equal_index', [(p, 'int') for p in ('a0', 'a1', 'a2', 'b0', 'b1', 'b2', 'k')], body,
            functions=['Series._ufunc_binary_operator', 'apply_binary_operator'],
            bounds='two Series of 3 over the same (unsorted) index; all cells and the scalar UNBOUNDED symbolic ints',
            route='Series op Series / scalar (reflected) / unlabelled array: order kept, int dtype kept', tier=tier, timeout=200)


_add(mk_series_same_index())


def mk_frame_binop(tier='quick'):
    def body(env, x, y, a00, a01, a10, a11, b00, b01, b10, b11):
        sf = env.sf
        ia, ca = [0, 1], [0, 1]
        ib = [1, concretize(x, 0, 2)]
        cb = [concretize(y, 0, 2), 0]
        # built from typed arrays (from_records would inspect every symbolic value for int magnitude: 2**8 paths)
        fa = sf.Frame.from_items(((ca[0], env.array([a00, a10], 'int64')), (ca[1], env.array([a01, a11], 'int64'))), index=ia)
        fb = sf.Frame.from_items(((cb[0], env.array([b00, b10], 'int64')), (cb[1], env.array([b01, b11], 'int64'))), index=ib)
        va = {(ia[i], ca[j]): v for i, row in enumerate([[a00, a01], [a10, a11]]) for j, v in enumerate(row)}
        vb = {(ib[i], cb[j]): v for i, row in enumerate([[b00, b01], [b10, b11]]) for j, v in enumerate(row)}
        r = fa + fb
        idx = r.index.values.tolist()
        cols = r.columns.values.tolist()
        vals = r.values.tolist()
        idx_o = [env.obs(i) for i in idx]
        cols_o = [env.obs(c) for c in cols]
        got = [[idx_o[a], cols_o[b], env.obs(vals[a][b])] for a in sorted(range(len(idx_o)), key=lambda t: idx_o[t]) for b in sorted(range(len(cols_o)), key=lambda t: cols_o[t])]
        exp = [[i, c, (va[(i, c)] + vb[(i, c)] if (i, c) in va and (i, c) in vb else M)]
               for i in sorted(set(ia) | set(ib)) for c in sorted(set(ca) | set(cb))]
        return [got, len(idx), len(cols)], [exp, len(set(ia) | set(ib)), len(set(ca) | set(cb))]
    return Cond('frame_binop_add', [('x', 'int'), ('y', 'int')] + [(p, 'int') for p in ('a00', 'a01', 'a10', 'a11', 'b00', 'b01', 'b10', 'b11')], body,
            ranges={'x': (0, 2), 'y': (0, 2)}, pre=['x != 1', 'y != 0'],
            functions=['Frame._ufunc_binary_operator', 'Frame.reindex', 'TypeBlocks._ufunc_binary_operator'],
            bounds='2x2 + 2x2 frames; one index label and one column label of the second symbolic in 0..2; all cells UNBOUNDED symbolic ints',
            route='Frame + Frame: union of labels on both axes, sum where both have the cell, missing marker elsewhere', tier=tier, timeout=300)


_add(mk_frame_binop())


def body_frame_series(env, y0, y1, a00, a01, a10, a11, s0, s1):
    """Frame op Series aligns the Series with the COLUMNS."""
    sf = env.sf
    cols = [0, 1]
    ls = [concretize(y0, 0, 2), concretize(y1, 0, 2)]
    fa = sf.Frame.from_items(((0, env.array([a00, a10], 'int64')), (1, env.array([a01, a11], 'int64'))), index=[10, 11])
    s = sf.Series(env.array([s0, s1], 'int64'), index=ls)
    r = fa - s
    vs = {ls[0]: s0, ls[1]: s1}
    rows = [[a00, a01], [a10, a11]]
    cidx = [env.obs(c) for c in r.columns.values.tolist()]
    vals = r.values.tolist()
    # cells listed row by row in ascending column-label order (no sorting on cell values: they are symbolic)
    order = sorted(range(len(cidx)), key=lambda j: cidx[j])
    got = [[cidx[j], env.obs(vals[i][j])] for i in range(2) for j in order]
    exp = [[c, (rows[i][cols.index(c)] - vs[c] if c in cols and c in vs else M)] for i in range(2) for c in sorted(set(cols) | set(ls))]
    return [got, env.obs(r.index.values.tolist())], [exp, [10, 11]]


_add(Cond('frame_binop_series_columns', [('y0', 'int'), ('y1', 'int')] + [(p, 'int') for p in ('a00', 'a01', 'a10', 'a11', 's0', 's1')], body_frame_series,
        ranges={'y0': (0, 2), 'y1': (0, 2)}, pre=['y0 != y1'],
        functions=['Frame._ufunc_binary_operator'],
        bounds='2x2 frame minus a Series of 2 whose labels are symbolic in 0..2; all cells UNBOUNDED symbolic ints',
        route='Frame - Series: the Series is aligned with the columns by label', timeout=300))


# ---------------------------------------------------------------- index set algebra

def body_index_sets(env, z0, z1, z2, nb, same):
    from vf import rt
    la = [3, 0, 2]      # unsorted on purpose
    lb = [concretize(v, 0, 4) for v in (z0, z1, z2)][:concretize(nb, 0, 3)]
    same = bool(same)

    def run():
        sf = env.sf
        a = sf.Index(la)
        b = sf.Index(list(la)) if same else sf.Index(lb)
        rb = la if same else lb
        out, exp = [], []
        for name, want in (('union', [x for x in range(5) if x in la or x in rb]),
                           ('intersection', [x for x in range(5) if x in la and x in rb]),
                           ('difference', [x for x in range(5) if x in la and x not in rb])):
            r = getattr(a, name)(b)
            vals = [env.obs(v) for v in r.values.tolist()]
            out.append([sorted(vals), len(vals)])
            exp.append([want, len(want)])
            if same and name != 'difference':
                out.append(vals)        # identical operands keep their order
                exp.append(la)
        # the operands are unchanged
        out.append([env.obs(a.values.tolist()), env.obs(b.values.tolist())])
        exp.append([la, rb])
        return out, exp
    return rt.untraced(run)


_add(Cond('index_set_algebra', [(p, 'int') for p in ('z0', 'z1', 'z2', 'nb')] + [('same', 'bool')], body_index_sets,
        ranges={'z0': (0, 4), 'z1': (0, 4), 'z2': (0, 4), 'nb': (0, 3)},
        pre=['z0 != z1', 'z0 != z2', 'z1 != z2', '(not same) or (nb == 0 and z0 == 0 and z1 == 1 and z2 == 2)'],
        functions=['IndexBase.union', 'IndexBase.intersection', 'IndexBase.difference', '_ufunc_set_1d'],
        bounds='Index [3, 0, 2] with an Index of 0..3 distinct labels symbolic in 0..4 (any order: disjoint / overlapping / equal sets), or with an identical copy',
        route='Index.union / intersection / difference: exactly the labels set algebra prescribes, each once; identical operands keep their order', timeout=400))


# ---------------------------------------------------------------- hierarchical labels: alignment by label tuple

def body_hier_binop(env, swap, p0, p1, drop, how):
    """Left operand on IndexHierarchy.from_product (one inner Index object shared by all outer groups); right operand holds the
    same tuples in a symbolic order (outer groups swapped, inner labels of either group permuted), optionally one leaf less."""
    from vf import rt
    swap, p0, p1, drop, how = bool(swap), bool(p0), bool(p1), concretize(drop, 0, 4), concretize(how, 0, 1)

    def run():
        sf = env.sf
        left_t = [(0, 10), (0, 11), (1, 10), (1, 11)]
        g0 = [(0, 11), (0, 10)] if p0 else [(0, 10), (0, 11)]
        g1 = [(1, 11), (1, 10)] if p1 else [(1, 10), (1, 11)]
        right_t = (g1 + g0) if swap else (g0 + g1)
        if drop < 4:
            right_t = [t for i, t in enumerate(right_t) if i != drop]
        va = {t: 100 + i for i, t in enumerate(left_t)}
        vb = {t: 7 * (i + 1) for i, t in enumerate(right_t)}
        ia = sf.IndexHierarchy.from_product((0, 1), (10, 11))
        ib = sf.IndexHierarchy.from_labels(right_t)
        if how == 0:
            a = sf.Series(env.array([va[t] for t in left_t], 'int64'), index=ia)
            b = sf.Series(env.array([vb[t] for t in right_t], 'int64'), index=ib)
            r = a - b
            pairs = [[list(map(env.obs, t)), env.obs(v)] for t, v in zip(r.index, r.values.tolist())]
        else:
            a = sf.Frame.from_items((('x', env.array([va[t] for t in left_t], 'int64')),), index=ia)
            b = sf.Frame.from_items((('x', env.array([vb[t] for t in right_t], 'int64')),), index=ib)
            r = a - b
            pairs = [[list(map(env.obs, t)), env.obs(v)] for t, v in zip(r.index, r['x'].values.tolist())]
        got = [sorted(pairs, key=lambda p: p[0]), env.obs(ia.equals(ib)), env.obs(ib.equals(ia))]
        exp = [[[list(t), (va[t] - vb[t] if t in vb else M)] for t in sorted(left_t)], left_t == right_t, left_t == right_t]
        return got, exp
    return rt.untraced(run)


_add(Cond('hierarchical_binop_alignment', [('swap', 'bool'), ('p0', 'bool'), ('p1', 'bool'), ('drop', 'int'), ('how', 'int')], body_hier_binop,
        ranges={'drop': (0, 4), 'how': (0, 1)},
        functions=['IndexHierarchy.equals', 'IndexLevel.equals', 'Series._ufunc_binary_operator'],
        bounds='2x2 product hierarchy (from_product: shared inner Index) against the same tuples in a symbolic order (outer groups swapped, inner labels of each group permuted), optionally one leaf dropped; Series or one-column Frame (symbolic); concrete cells',
        route='Series/Frame - Series/Frame on hierarchical labels: values paired by label tuple; IndexHierarchy.equals true only for the identical order', timeout=400))


# ---------------------------------------------------------------- Frame.via_T op Series: the Series is aligned with the INDEX

def body_via_T(env, y0, y1, n, wide):
    from vf import rt
    ls = [concretize(y0, 10, 12), concretize(y1, 10, 12)][:concretize(n, 1, 2)]
    wide = bool(wide)

    def run():
        sf = env.sf
        # square (2x2) or wide (2x3): with two row labels the aligned frame is square exactly when the Series brings no new label
        items = [('a', env.array([1, 2], 'int64')), ('b', env.array([3, 4], 'int64'))] + ([('c', env.array([5, 6], 'int64'))] if wide else [])
        f = sf.Frame.from_items(items, index=[10, 11])
        s = sf.Series(env.array([100 * (k + 1) for k in range(len(ls))], 'int64'), index=ls)
        r = f.via_T - s
        vs = {l: 100 * (k + 1) for k, l in enumerate(ls)}
        rows = {10: [1, 3, 5], 11: [2, 4, 6]}
        ncols = 3 if wide else 2
        labels = sorted(set(rows) | set(ls))
        ridx = [env.obs(x) for x in r.index.values.tolist()]
        vals = r.values.tolist()
        got = [[ridx[i], [env.obs(v) for v in vals[i]]] for i in sorted(range(len(ridx)), key=lambda t: ridx[t])]
        exp = [[l, [(rows[l][c] - vs[l] if l in rows and l in vs else M) for c in range(ncols)]] for l in labels]
        return [got, env.obs(r.columns.values.tolist())], [exp, ['a', 'b', 'c'][:ncols]]
    return rt.untraced(run)


_add(Cond('frame_via_T_series_rows', [('y0', 'int'), ('y1', 'int'), ('n', 'int'), ('wide', 'bool')], body_via_T,
        ranges={'y0': (10, 12), 'y1': (10, 12), 'n': (1, 2)}, pre=['y0 != y1'],
        functions=['Frame._ufunc_binary_operator', 'TypeBlocks._ufunc_binary_operator'],
        bounds='2x2 (square) or 2x3 frame; via_T minus a Series of 1..2 labels symbolic in 10..12 (aligned frame square or not); concrete cells',
        route='Frame.via_T - Series: the Series is aligned with the row labels and applied down every column', timeout=300))


# ---------------------------------------------------------------- results are checked through EVERY view of their index

def index_views(env, ix, probes):
    """labels, and what the index itself answers about them: position of every label, membership of every probe"""
    from static_frame.core.exception import LocInvalid
    labels = [env.obs(v) for v in ix.values.tolist()]
    locs = []
    for l in ix.values.tolist():
        try:
            locs.append(env.obs(ix.loc_to_iloc(l)))
        except (KeyError, LocInvalid, IndexError):
            locs.append('absent')
    return [labels, locs, [bool(p in ix) for p in probes], len(ix)]


def ref_index_views(labels, probes):
    return [list(labels), list(range(len(labels))), [p in labels for p in probes], len(labels)]


def body_auto_index_sets(env, n, m, op):
    """Set algebra between default (auto-incremented, map-less) indices, as Series / Frames without explicit labels have."""
    from vf import rt
    n, m, op = concretize(n, 0, 4), concretize(m, 0, 4), ('union', 'intersection', 'difference')[concretize(op, 0, 2)]

    def run():
        sf = env.sf
        a = sf.Series(env.array(list(range(10, 10 + n)), 'int64')).index
        b = sf.Frame(env.array([[0] * m], 'int64')).columns if m else sf.Index(())
        r = getattr(a, op)(b)
        la, lb = list(range(n)), list(range(m))
        want = {'union': [x for x in range(5) if x in la or x in lb], 'intersection': [x for x in la if x in lb], 'difference': [x for x in la if x not in lb]}[op]
        probes = list(range(6))
        got = index_views(env, r, probes)
        got[0] = sorted(got[0])
        # a Series labelled with the result selects by LABEL
        s = sf.Series(env.array([100 + l for l in r.values.tolist()], 'int64'), index=r)
        sel = []
        for l in want:
            try:
                sel.append(env.obs(s.loc[l]))
            except (KeyError, IndexError):
                sel.append('absent')
        exp = ref_index_views(want, probes)
        if op != 'difference' or True:
            exp_locs = exp[1]
        # positions are those of the labels IN THE RESULT's own order (checked pairwise: label i sits at position i)
        return [got[0], got[2], got[3], [env.obs(r.loc_to_iloc(l)) == i for i, l in enumerate(r.values.tolist())], sel], \
               [want, exp[2], exp[3], [True] * len(want), [100 + l for l in want]]
    return rt.untraced(run)


_add(Cond('auto_index_set_algebra', [('n', 'int'), ('m', 'int'), ('op', 'int')], body_auto_index_sets, ranges={'n': (0, 4), 'm': (0, 4), 'op': (0, 2)},
        functions=['IndexBase.union', 'IndexBase.difference', 'Index._ufunc_set'],
        bounds='two default (auto-incremented) indices of symbolic lengths 0..4 (a Series index and Frame columns); union / intersection / difference (symbolic)',
        route='set algebra on default indices: exactly the prescribed labels; the RESULT answers membership and loc_to_iloc by label (label i of the result sits at position i) and a Series labelled with it selects by label', timeout=300))


def body_frame_series_unsorted(env, perm, y0, y1, y2, ns, opsel):
    """Frame op Series with the Frame's columns in ANY order and the Series over a subset / permutation / superset."""
    from vf import rt
    perms = ((0, 1, 2), (0, 2, 1), (1, 0, 2), (1, 2, 0), (2, 0, 1), (2, 1, 0))
    fcols = list(perms[concretize(perm, 0, 5)])
    ls = [concretize(y0, 0, 3), concretize(y1, 0, 3), concretize(y2, 0, 3)][:concretize(ns, 2, 3)]
    opname = ('add', 'sub', 'lt')[concretize(opsel, 0, 2)]

    def run():
        sf = env.sf
        fn = OPS[opname]
        f = sf.Frame.from_items(((c, env.array([10 * c + 1, 10 * c + 2], 'int64')) for c in fcols), index=[100, 101])
        s = sf.Series(env.array([1000 * (k + 1) for k in range(len(ls))], 'int64'), index=ls)
        r = fn(f, s)
        vs = {l: 1000 * (k + 1) for k, l in enumerate(ls)}
        labels = sorted(set(fcols) | set(ls))
        cidx = [env.obs(c) for c in r.columns.values.tolist()]
        vals = r.values.tolist()
        got = sorted([[cidx[j], [env.obs(vals[i][j]) for i in range(2)]] for j in range(len(cidx))], key=lambda t: t[0])
        miss = False if opname == 'lt' else M
        exp = [[c, [(fn(10 * c + 1 + i, vs[c]) if (c in fcols and c in vs) else miss) for i in range(2)]] for c in labels]
        out = [got, env.obs(r.index.values.tolist()), index_views(env, r.columns, list(range(5)))[1:]]
        ref = [exp, [100, 101], ref_index_views(cidx, list(range(5)))[1:]]
        if fcols == ls:
            out.append(cidx); ref.append(fcols)     # equal indices keep their order
        return out, ref
    return rt.untraced(run)


_add(Cond('frame_binop_series_unsorted_columns', [('perm', 'int'), ('y0', 'int'), ('y1', 'int'), ('y2', 'int'), ('ns', 'int'), ('opsel', 'int')], body_frame_series_unsorted,
        ranges={'perm': (0, 5), 'y0': (0, 3), 'y1': (0, 3), 'y2': (0, 3), 'ns': (2, 3), 'opsel': (0, 2)},
        pre=['y0 != y1', 'ns == 2 or (y2 != y0 and y2 != y1)', 'ns == 3 or y2 == 0', 'opsel == 0 or perm in (0, 3)'],
        functions=['Frame._ufunc_binary_operator'],
        bounds='2x3 frame whose column labels 0,1,2 come in any of the 6 orders (symbolic); Series over 2..3 distinct labels symbolic in 0..3 in any order (subset / permutation / superset of the columns); +, -, < (symbolic); concrete cells',
        route='Frame op Series: every column paired with the Series value of ITS label whatever the order of either side; the result columns answer membership / loc_to_iloc consistently', timeout=400))


# ---------------------------------------------------------------- hierarchical set algebra over level dtype kinds of either operand

LEVEL_KINDS = ('int64', 'uint64', 'float64', 'int32', 'object')


def body_hier_sets_kinds(env, shift, op, flip):
    """Two depth-2 hierarchies whose level arrays have every pair of dtypes in turn (so the 2-D values arrays have to be brought to a
    common dtype that may differ from BOTH); the right operand is the left one shifted by 0..2 outer labels."""
    from vf import rt
    shift, op, flip = concretize(shift, 0, 2), concretize(op, 0, 2), bool(flip)

    def run():
        got, exp = [], []
        for ka in range(len(LEVEL_KINDS)):
            for kb in range(len(LEVEL_KINDS)):
                g, e = one(ka, kb)
                got.append(g); exp.append(e)
        return got, exp

    def one(ka, kb):
        sf = env.sf

        def mk(outer, kind):
            return sf.IndexHierarchy.from_product(sf.Index(env.array(list(outer), LEVEL_KINDS[kind])), sf.Index(env.array([10, 20], LEVEL_KINDS[kind])))
        oa, ob = (1, 2), (1 + shift, 2 + shift)
        A = [(o, i) for o in oa for i in (10, 20)]
        B = [(o, i) for o in ob for i in (10, 20)]
        a, b = mk(oa, ka), mk(ob, kb)
        if flip:
            a, b, A, B = b, a, B, A
        r = (a.union, a.intersection, a.difference)[op](b)
        ref = sorted((set(A) | set(B), set(A) & set(B), set(A) - set(B))[op])
        labels = sorted((int(x[0]), int(x[1])) for x in r.values.tolist())
        got = [type(r).__name__, len(r), [list(t) for t in labels], [bool(t in r) for t in sorted(set(A) | set(B))]]
        exp = ['IndexHierarchy', len(ref), [list(t) for t in ref], [t in ref for t in sorted(set(A) | set(B))]]
        return got, exp
    return rt.untraced(run)


_add(Cond('hierarchy_set_algebra_level_kinds', [('shift', 'int'), ('op', 'int'), ('flip', 'bool')], body_hier_sets_kinds,
        ranges={'shift': (0, 2), 'op': (0, 2)},
        functions=['IndexHierarchy._ufunc_set', '_ufunc_set_2d'],
        bounds=f'two depth-2 hierarchies (2 x 2 leaves) over EVERY pair of level dtypes from {LEVEL_KINDS} inside each path; right operand = left shifted by 0..2 outer labels (equal / overlapping / disjoint); union / intersection / difference (symbolic), operands in either order',
        route='IndexHierarchy.union / intersection / difference across level dtypes: exactly the label tuples set algebra prescribes, each once, membership agrees', timeout=400))
