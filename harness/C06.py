"""C06: index set algebra and label alignment of binary operators.

Real functions executed: Series._ufunc_binary_operator, Frame._ufunc_binary_operator,
apply_binary_operator, IndexCorrespondence.from_correspondence, Series.reindex, Frame.reindex,
TypeBlocks.resize_blocks / _ufunc_binary_operator, Index.union/intersection/difference,
_ufunc_set_1d, union1d / intersect1d / setdiff1d.
Symbolic: the labels of the right operand (so the solver chooses overlapping / disjoint / permuted),
cells, and the order of both operands.  Oracle: dictionary label -> value."""
import operator

from vf.cond import Cond

CONDS = {}
ASSUMPTIONS = ['labels ints; cells ints (float arithmetic is not modelled: +, -, comparisons and &,| only)']
OUTSIDE = ('float arithmetic, *, /, ** and matmul; string dtypes; hierarchical labels (the 2-D structured-array set path is C-layout dependent); more than 3 labels per operand')
TRACES_QUICK = 24

M = 'NaN'


def _add(c):
    CONDS[c.name] = c
    return c


def concretize(v, lo, hi):
    for k in range(lo, hi + 1):
        if v == k:
            return k
    raise AssertionError('out of range')


OPS = {'add': operator.add, 'sub': operator.sub, 'lt': operator.lt, 'eq': operator.eq}


def mk_series_binop(opname, tier='quick'):
    def body(env, y0, y1, y2, a0, a1, b0, b1, b2, pa, pb):
        sf = env.sf
        la = [0, 1]
        lb = [concretize(y0, 0, 3), concretize(y1, 0, 3), concretize(y2, 0, 3)]
        va = {0: a0, 1: a1}
        vb = {lb[0]: b0, lb[1]: b1, lb[2]: b2}
        # operand label orders: optionally reversed (the label->value mapping must not depend on it)
        oa = la[::-1] if pa else la
        ob = lb[::-1] if pb else lb
        sa = sf.Series(env.array([va[l] for l in oa], 'int64'), index=oa)
        sb = sf.Series(env.array([vb[l] for l in ob], 'int64'), index=ob)
        fn = OPS[opname]
        r = fn(sa, sb)
        got = sorted([[env.obs(l), env.obs(v)] for l, v in zip(r.index.values.tolist(), r.values.tolist())], key=lambda t: t[0])
        labels = sorted(set(la) | set(lb))
        exp = []
        for l in labels:
            if l in va and l in vb:
                exp.append([l, fn(va[l], vb[l])])
            else:
                exp.append([l, (False if opname in ('lt', 'eq') else M)])
        out = [got, len(r)]
        ref = [exp, len(labels)]
        if oa == ob:
            # equal indices keep their order and the non-missing dtype
            out.append([env.obs(r.index.values.tolist()), r.dtype.kind])
            ref.append([oa, 'b' if opname in ('lt', 'eq') else 'i'])
        return out, ref
    return Cond(f'series_binop_{opname}', [('y0', 'int'), ('y1', 'int'), ('y2', 'int'), ('a0', 'int'), ('a1', 'int'), ('b0', 'int'), ('b1', 'int'), ('b2', 'int'), ('pa', 'bool'), ('pb', 'bool')], body,
            ranges={'y0': (0, 3), 'y1': (0, 3), 'y2': (0, 3)}, pre=['y0 != y1', 'y0 != y2', 'y1 != y2'],
            functions=['Series._ufunc_binary_operator', 'IndexCorrespondence.from_correspondence', 'Series.reindex'],
            bounds='Series of 2 (labels 0,1) op Series of 3 (labels symbolic in 0..3: overlap / disjoint / permuted), cells UNBOUNDED symbolic ints, each operand optionally reversed',
            route=f'Series {opname} Series: result labelled by the union, op(a, b) where both have the label, missing marker elsewhere; mapping independent of operand order', tier=tier, timeout=300)


_add(mk_series_binop('add'))
_add(mk_series_binop('lt'))
_add(mk_series_binop('sub')).tier = 'thorough'
_add(mk_series_binop('eq')).tier = 'thorough'


def mk_series_same_index(tier='quick'):
    def body(env, a0, a1, a2, b0, b1, b2, k):
        sf = env.sf
        labels = [7, 3, 5]
        sa = sf.Series(env.array([a0, a1, a2], 'int64'), index=labels, name='x')
        sb = sf.Series(env.array([b0, b1, b2], 'int64'), index=labels)
        out, ref = [], []
        for name, fn in (('add', operator.add), ('sub', operator.sub), ('ge', operator.ge), ('ne', operator.ne)):
            r = fn(sa, sb)
            out.append([env.obs(r.index.values.tolist()), env.obs(r.values.tolist())])
            ref.append([labels, [fn(x, y) for x, y in zip([a0, a1, a2], [b0, b1, b2])]])
        # scalar and reflected forms
        r = k - sa
        out.append(env.obs(r.values.tolist())); ref.append([k - a0, k - a1, k - a2])
        r = sa + env.array([b0, b1, b2], 'int64')      # unlabelled array: by position
        out.append(env.obs(r.values.tolist())); ref.append([a0 + b0, a1 + b1, a2 + b2])
        return out, ref
    return Cond('series_binop_equal_index', [(p, 'int') for p in ('a0', 'a1', 'a2', 'b0', 'b1', 'b2', 'k')], body,
            functions=['Series._ufunc_binary_operator', 'apply_binary_operator'],
            bounds='two Series of 3 over the same (unsorted) index; all cells and the scalar UNBOUNDED symbolic ints',
            route='Series op Series / scalar (reflected) / unlabelled array: order kept, int dtype kept', tier=tier, timeout=200)


_add(mk_series_same_index())


def mk_frame_binop(tier='quick'):
    def body(env, x, y, a00, a01, a10, a11, b00, b01, b10, b11):
        sf = env.sf
        ia, ca = [0, 1], [0, 1]
        ib = [1, concretize(x, 0, 2)]
        cb = [concretize(y, 0, 2), 0]
        # built from typed arrays (from_records would inspect every symbolic value for int magnitude: 2**8 paths)
        fa = sf.Frame.from_items(((ca[0], env.array([a00, a10], 'int64')), (ca[1], env.array([a01, a11], 'int64'))), index=ia)
        fb = sf.Frame.from_items(((cb[0], env.array([b00, b10], 'int64')), (cb[1], env.array([b01, b11], 'int64'))), index=ib)
        va = {(ia[i], ca[j]): v for i, row in enumerate([[a00, a01], [a10, a11]]) for j, v in enumerate(row)}
        vb = {(ib[i], cb[j]): v for i, row in enumerate([[b00, b01], [b10, b11]]) for j, v in enumerate(row)}
        r = fa + fb
        idx = r.index.values.tolist()
        cols = r.columns.values.tolist()
        vals = r.values.tolist()
        idx_o = [env.obs(i) for i in idx]
        cols_o = [env.obs(c) for c in cols]
        got = [[idx_o[a], cols_o[b], env.obs(vals[a][b])] for a in sorted(range(len(idx_o)), key=lambda t: idx_o[t]) for b in sorted(range(len(cols_o)), key=lambda t: cols_o[t])]
        exp = [[i, c, (va[(i, c)] + vb[(i, c)] if (i, c) in va and (i, c) in vb else M)]
               for i in sorted(set(ia) | set(ib)) for c in sorted(set(ca) | set(cb))]
        return [got, len(idx), len(cols)], [exp, len(set(ia) | set(ib)), len(set(ca) | set(cb))]
    return Cond('frame_binop_add', [('x', 'int'), ('y', 'int')] + [(p, 'int') for p in ('a00', 'a01', 'a10', 'a11', 'b00', 'b01', 'b10', 'b11')], body,
            ranges={'x': (0, 2), 'y': (0, 2)}, pre=['x != 1', 'y != 0'],
            functions=['Frame._ufunc_binary_operator', 'Frame.reindex', 'TypeBlocks._ufunc_binary_operator'],
            bounds='2x2 + 2x2 frames; one index label and one column label of the second symbolic in 0..2; all cells UNBOUNDED symbolic ints',
            route='Frame + Frame: union of labels on both axes, sum where both have the cell, missing marker elsewhere', tier=tier, timeout=300)


_add(mk_frame_binop())


def body_frame_series(env, y0, y1, a00, a01, a10, a11, s0, s1):
    """Frame op Series aligns the Series with the COLUMNS."""
    sf = env.sf
    cols = [0, 1]
    ls = [concretize(y0, 0, 2), concretize(y1, 0, 2)]
    fa = sf.Frame.from_items(((0, env.array([a00, a10], 'int64')), (1, env.array([a01, a11], 'int64'))), index=[10, 11])
    s = sf.Series(env.array([s0, s1], 'int64'), index=ls)
    r = fa - s
    vs = {ls[0]: s0, ls[1]: s1}
    rows = [[a00, a01], [a10, a11]]
    cidx = [env.obs(c) for c in r.columns.values.tolist()]
    vals = r.values.tolist()
    # cells listed row by row in ascending column-label order (no sorting on cell values: they are symbolic)
    order = sorted(range(len(cidx)), key=lambda j: cidx[j])
    got = [[cidx[j], env.obs(vals[i][j])] for i in range(2) for j in order]
    exp = [[c, (rows[i][cols.index(c)] - vs[c] if c in cols and c in vs else M)] for i in range(2) for c in sorted(set(cols) | set(ls))]
    return [got, env.obs(r.index.values.tolist())], [exp, [10, 11]]


_add(Cond('frame_binop_series_columns', [('y0', 'int'), ('y1', 'int')] + [(p, 'int') for p in ('a00', 'a01', 'a10', 'a11', 's0', 's1')], body_frame_series,
        ranges={'y0': (0, 2), 'y1': (0, 2)}, pre=['y0 != y1'],
        functions=['Frame._ufunc_binary_operator'],
        bounds='2x2 frame minus a Series of 2 whose labels are symbolic in 0..2; all cells UNBOUNDED symbolic ints',
        route='Frame - Series: the Series is aligned with the columns by label', timeout=300))
