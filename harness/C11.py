"""C11: concatenation and overlay keep every input cell exactly once, aligned by label.

Real functions executed: Frame.from_concat (both axes, union / intersection), Frame.from_concat_items,
Series.from_concat, Frame.from_overlay, Series.from_overlay, concat_resolved,
TypeBlocks.vstack_blocks_to_blocks (block-compatible / reblock-compatible / incompatible layouts),
index_many_concat, index_many_set, ufunc_set_iter, TypeBlocks.fillna_by_values / resize_blocks.
Symbolic: the labels of the second input on the ALIGNED axis (overlap / disjoint / permuted decided by
the solver), cells, the fill value, missing flags for overlay.  Oracle: (axis label, other label) ->
cell dictionary built from the inputs."""
from vf.cond import Cond
from vf import layouts

CONDS = {}
ASSUMPTIONS = ['labels are ints; cells ints (NaN only as the missing marker in overlay)']
OUTSIDE = ('more than 3 inputs; hierarchical input labels; dtype mixes beyond int/float/object; generator inputs beyond "consumed once"')
TRACES_QUICK = 24


def _add(c):
    CONDS[c.name] = c
    return c


def concretize(v, lo, hi):
    for k in range(lo, hi + 1):
        if v == k:
            return k
    raise AssertionError('out of range')


def build_frame(env, rows, index, columns, layout):
    sf = env.sf
    from static_frame.core.type_blocks import TypeBlocks
    ncols = len(columns)
    cols = [[rows[r][c] for r in range(len(index))] for c in range(ncols)]
    tb = TypeBlocks.from_blocks(layouts.build_blocks(env, cols, 'int64', layout))
    return sf.Frame(tb, index=index, columns=columns)


def obs_by_label(env, f):
    """{(row label, col label): cell} in label order, plus the label lists"""
    idx = [env.obs(x) for x in f.index.values.tolist()] if f.index.depth == 1 else [env.obs(list(t)) for t in f.index]
    cols = [env.obs(x) for x in f.columns.values.tolist()] if f.columns.depth == 1 else [env.obs(list(t)) for t in f.columns]
    vals = env.obs(f.values.tolist()) if f.shape[0] and f.shape[1] else [[] for _ in idx]
    return [idx, cols, vals]


def mk_concat(axis, union, la, lb, tier='quick', timeout=240):
    """Two 2x2 frames; concatenation axis labels fixed & distinct; the ALIGNED axis labels of the
    second frame are symbolic."""
    def body(env, x0, x1, fill, c0, c1):
        sf = env.sf
        from static_frame.core.exception import ErrorInitIndex
        A_al = [0, 1]                         # aligned-axis labels of input A
        B_al = [concretize(x0, 0, 2), concretize(x1, 0, 2)]
        A_cat, B_cat = [10, 11], [12, 13]     # labels along the concatenation axis (unique overall)
        a_rows = [[100, 101], [110, 111]]
        b_rows = [[c0, 201], [210, c1]]
        if axis == 0:
            fa = build_frame(env, a_rows, A_cat, A_al, la)
            fb = build_frame(env, b_rows, B_cat, B_al, lb)
        else:
            fa = build_frame(env, [[a_rows[j][i] for j in range(2)] for i in range(2)], A_al, A_cat, la)
            fb = build_frame(env, [[b_rows[j][i] for j in range(2)] for i in range(2)], B_al, B_cat, lb)
        r = sf.Frame.from_concat((fa, fb), axis=axis, union=union, fill_value=fill)
        got = obs_by_label(env, r)
        # reference dictionary keyed by (cat label, aligned label)
        cell = {}
        for i, cl in enumerate(A_cat):
            for j, al in enumerate(A_al):
                cell[(cl, al)] = a_rows[i][j]
        for i, cl in enumerate(B_cat):
            for j, al in enumerate(B_al):
                cell[(cl, al)] = b_rows[i][j]
        if union:
            al_all = A_al + [l for l in B_al if l not in A_al]
            if A_al != B_al:
                al_all = sorted(al_all)
        else:
            al_all = [l for l in A_al if l in B_al]
            if A_al != B_al:
                al_all = sorted(al_all)
        cat_all = A_cat + B_cat
        table = [[cell.get((cl, al), fill) for al in al_all] for cl in cat_all]
        if axis == 0:
            exp = [cat_all, al_all, table if al_all else [[] for _ in cat_all]]
        else:
            exp = [al_all, cat_all, [[table[i][j] for i in range(len(cat_all))] for j in range(len(al_all))]]
        # label ORDER on the aligned axis is only specified for identical operands; compare as a mapping otherwise
        return canon(got, axis), canon(exp, axis)
    return Cond(f'frame_concat_axis{axis}_{"union" if union else "intersection"}_{layouts.name(la)}_{layouts.name(lb)}',
            [('x0', 'int'), ('x1', 'int'), ('fill', 'int'), ('c0', 'int'), ('c1', 'int')], body,
            ranges={'x0': (0, 2), 'x1': (0, 2)}, pre=['x0 != x1'],
            functions=['Frame.from_concat', 'index_many_set', 'TypeBlocks.vstack_blocks_to_blocks' if axis == 0 else 'Frame.reindex'],
            bounds=f'two 2x2 int64 frames, layouts {la} / {lb}; aligned-axis labels of the second frame symbolic in 0..2 (equal / permuted / partially overlapping / disjoint), two cells and the fill value UNBOUNDED symbolic ints',
            route=f'Frame.from_concat(axis={axis}, union={union}, fill_value=v): every input cell once at its own labels, fill elsewhere', tier=tier, timeout=timeout)


def canon(o, axis):
    idx, cols, vals = o
    return sorted([[i, c, vals[a][b]] for a, i in enumerate(idx) for b, c in enumerate(cols)], key=lambda t: (str(t[0]), str(t[1]))) + [[len(idx), len(cols)]]


V, W = (1, 1), (2, 2)
_add(mk_concat(0, True, (V, V), (V, V)))
_add(mk_concat(0, True, (W,), (V, V)))
_add(mk_concat(0, False, (W,), (W,)))
_add(mk_concat(1, True, (V, V), (W,)))
_add(mk_concat(1, False, (W,), (V, V)))
for _ax in (0, 1):
    for _un in (True, False):
        for _la in layouts.compositions(2):
            for _lb in layouts.compositions(2):
                c = mk_concat(_ax, _un, _la, _lb, tier='thorough', timeout=900)
                if c.name not in CONDS:
                    _add(c)


def body_concat_duplicates(env, x0, x1, use_auto):
    """Non-unique labels on the concatenation axis are rejected unless a replacement index is given."""
    sf = env.sf
    from static_frame.core.exception import ErrorInit
    fa = build_frame(env, [[100, 101], [110, 111]], [10, 11], [0, 1], (V, V))
    fb = build_frame(env, [[200, 201], [210, 211]], [x0, x1], [0, 1], (V, V))
    try:
        r = sf.Frame.from_concat((fa, fb), index=sf.IndexAutoFactory if use_auto else None)
        got = ['ok', env.obs(list(r.index.values)), env.obs(r.values.tolist())]
    except ErrorInit:   # ErrorInitFrame / ErrorInitIndex: construction fails instead of producing duplicate labels
        got = ['rejected']
    dup = x0 in (10, 11) or x1 in (10, 11)
    rows = [[100, 101], [110, 111], [200, 201], [210, 211]]
    if use_auto:
        exp = ['ok', [0, 1, 2, 3], rows]
    elif dup:
        exp = ['rejected']
    else:
        exp = ['ok', [10, 11, x0, x1], rows]
    return got, exp


_add(Cond('frame_concat_duplicate_labels', [('x0', 'int'), ('x1', 'int'), ('use_auto', 'bool')], body_concat_duplicates, pre=['x0 != x1'],
        functions=['Frame.from_concat', 'index_many_concat'],
        bounds='two 2x2 frames; index labels of the second UNBOUNDED symbolic ints; symbolic choice of index=IndexAutoFactory',
        route='Frame.from_concat(axis=0): duplicate concatenated labels raise unless a replacement index is supplied'))


def body_concat_items(env, c0, c1):
    sf = env.sf
    fa = build_frame(env, [[c0, 101], [110, 111]], [10, 11], [0, 1], (V, V))
    fb = build_frame(env, [[200, 201], [210, c1]], [10, 11], [0, 1], (W,))
    r = sf.Frame.from_concat_items((('p', fa), ('q', fb)))
    got = [env.obs([list(t) for t in r.index]), env.obs(list(r.columns.values)), env.obs(r.values.tolist())]
    exp = [[['p', 10], ['p', 11], ['q', 10], ['q', 11]], [0, 1], [[c0, 101], [110, 111], [200, 201], [210, c1]]]
    return got, exp


_add(Cond('frame_concat_items', [('c0', 'int'), ('c1', 'int')], body_concat_items,
        functions=['Frame.from_concat_items', 'IndexHierarchy.from_index_items'],
        bounds='two 2x2 frames with equal index labels under outer keys p / q; two cells UNBOUNDED symbolic',
        route='Frame.from_concat_items: two-level label (outer key, inner label), same content', timeout=240))


def body_series_concat(env, a0, a1, b0, x):
    sf = env.sf
    from static_frame.core.exception import ErrorInitIndex
    sa = sf.Series(env.array([a0, a1], 'int64'), index=[1, 2])
    sb = sf.Series(env.array([b0], 'int64'), index=[x])
    try:
        r = sf.Series.from_concat((sa, sb))
        got = ['ok', env.obs(list(r.index.values)), env.obs(r.values.tolist())]
    except ErrorInitIndex:
        got = ['rejected']
    exp = ['rejected'] if x in (1, 2) else ['ok', [1, 2, x], [a0, a1, b0]]
    return got, exp


_add(Cond('series_concat', [('a0', 'int'), ('a1', 'int'), ('b0', 'int'), ('x', 'int')], body_series_concat,
        functions=['Series.from_concat'],
        bounds='Series of 2 and of 1; all cells and the second label UNBOUNDED symbolic ints',
        route='Series.from_concat: labels and cells in input order; duplicate labels rejected'))


# ---------------------------------------------------------------- overlay: first non-missing value per cell

def mk_overlay(la, lb, tier='quick'):
    def body(env, x0, x1, **kw):
        from vf import rt
        x0, x1 = concretize(x0, 0, 2), concretize(x1, 0, 2)
        kw = {k: bool(v) for k, v in kw.items()}     # one decision per cell; everything concrete afterwards
        return rt.untraced(lambda: run(env, x0, x1, kw))

    def run(env, x0, x1, kw):
        sf = env.sf
        from static_frame.core.type_blocks import TypeBlocks
        M = 'NaN'
        A_cols = [0, 1]
        B_cols = [x0, x1]
        index = [10, 11]

        def mk(prefix, base, cols, layout):
            lib_rows, ref_rows = [], []
            for r in range(2):
                lib_rows.append([env.nan if kw[f'{prefix}{r}{c}'] else base + 10 * r + c for c in range(2)])
                ref_rows.append([M if kw[f'{prefix}{r}{c}'] else base + 10 * r + c for c in range(2)])
            colsdata = [[lib_rows[r][c] for r in range(2)] for c in range(2)]
            tb = TypeBlocks.from_blocks(layouts.build_blocks(env, colsdata, 'float64', layout))
            return sf.Frame(tb, index=index, columns=cols), ref_rows
        fa, ra = mk('a', 100, A_cols, la)
        fb, rb = mk('b', 200, B_cols, lb)
        r = sf.Frame.from_overlay((fa, fb))
        got = obs_by_label(env, r)
        cols_all = sorted(set(A_cols) | set(B_cols)) if A_cols != B_cols else A_cols
        table = []
        for i in range(2):
            row = []
            for c in cols_all:
                v = M
                if c in A_cols:
                    v = ra[i][A_cols.index(c)]
                if v == M and c in B_cols:
                    v = rb[i][B_cols.index(c)]
                row.append(v)
            table.append(row)
        return canon(got, 0), canon([index, cols_all, table], 0)
    params = [('x0', 'int'), ('x1', 'int')] + [(f'{p}{r}{c}', 'bool') for p in 'ab' for r in range(2) for c in range(2)]
    return Cond(f'frame_overlay_{layouts.name(la)}_{layouts.name(lb)}', params, body, ranges={'x0': (0, 2), 'x1': (0, 2)}, pre=['x0 != x1'],
            functions=['Frame.from_overlay', 'TypeBlocks.fillna_by_values'],
            bounds=f'two 2x2 float64 frames (layouts {la} / {lb}), every cell possibly missing (symbolic flag); column labels of the second symbolic in 0..2',
            route='Frame.from_overlay: per cell the first non-missing value in input order, aligned by label', tier=tier, timeout=300)


_add(mk_overlay((V, V), (W,)))
_add(mk_overlay((W,), (V, V), tier='thorough'))


# ---------------------------------------------------------------- three inputs, empty inputs, 3-label permutations (concrete cells, symbolic labels)

def frame_from_table(env, cat, al, table, axis):
    """table[i][j]: cell at (cat[i], al[j]); axis = concatenation axis (cat labels lie along it)."""
    sf = env.sf
    if axis == 0:
        index, columns, rows = cat, al, table
    else:
        index, columns, rows = al, cat, [[table[i][j] for i in range(len(cat))] for j in range(len(al))]
    if not columns:
        return sf.Frame(index=index)
    if not index:
        return sf.Frame(columns=columns)
    return sf.Frame.from_items(((c, env.array([rows[r][k] for r in range(len(index))], 'int64')) for k, c in enumerate(columns)), index=index)


def ref_concat(inputs, union, fill, same_order_ok=True):
    """inputs: list of (cat labels, aligned labels, table) -> (cat_all, al_all as a SET, cell dict)"""
    cell = {}
    cat_all = []
    for cat, al, table in inputs:
        cat_all += cat
        for i, cl in enumerate(cat):
            for j, a in enumerate(al):
                cell[(cl, a)] = table[i][j]
    sets = [set(al) for _, al, _ in inputs]
    al_all = set().union(*sets) if union else set.intersection(*sets)
    return cat_all, sorted(al_all), cell


def mk_concat_three(axis, tier='quick'):
    def body(env, e0, e1, x0, x1, union):
        from vf import rt
        e0, e1, union = bool(e0), bool(e1), bool(union)
        x0, x1 = concretize(x0, 0, 2), concretize(x1, 0, 2)

        def run():
            sf = env.sf
            fill = -1
            inputs = []
            for k, (al, base) in enumerate((([] if e0 else [0, 1], 100), ([] if e1 else [0, 1], 200), ([x0, x1], 300))):
                cat = [10 + 2 * k, 11 + 2 * k]
                inputs.append((cat, al, [[base + 10 * i + j for j in range(len(al))] for i in range(2)]))
            frames = [frame_from_table(env, cat, al, t, axis) for cat, al, t in inputs]
            r = sf.Frame.from_concat(frames, axis=axis, union=union, fill_value=fill)
            got = obs_by_label(env, r)
            cat_all, al_all, cell = ref_concat(inputs, union, fill)
            table = [[cell.get((cl, a), fill) for a in al_all] for cl in cat_all]
            if axis == 0:
                exp = [cat_all, al_all, table if al_all else [[] for _ in cat_all]]
            else:
                exp = [al_all, cat_all, [[table[i][j] for i in range(len(cat_all))] for j in range(len(al_all))]]
            # the concatenation-axis labels keep input order (checked as a list); the aligned axis is compared as a mapping
            cat_got = got[0] if axis == 0 else got[1]
            return [canon(got, axis), cat_got], [canon(exp, axis), cat_all]
        return rt.untraced(run)
    return Cond(f'frame_concat_three_inputs_axis{axis}', [('e0', 'bool'), ('e1', 'bool'), ('x0', 'int'), ('x1', 'int'), ('union', 'bool')], body,
            ranges={'x0': (0, 2), 'x1': (0, 2)}, pre=['x0 != x1'],
            functions=['Frame.from_concat', 'index_many_set', 'ufunc_set_iter'],
            bounds='three frames with 2 labels on the concatenation axis each; the first and the second input have NO labels on the aligned axis or labels [0, 1] (symbolic), the third has two distinct labels symbolic in 0..2; union / intersection symbolic; concrete cells, fill -1',
            route=f'Frame.from_concat of three frames (axis={axis}): every cell of every input once at its own labels, also when earlier inputs are empty on the aligned axis', tier=tier, timeout=300)


_add(mk_concat_three(0))
_add(mk_concat_three(1))


def mk_concat_perm3(axis, tier='quick'):
    def body(env, x0, x1, x2, explicit):
        from vf import rt
        xs = [concretize(v, 0, 3) for v in (x0, x1, x2)]
        explicit = bool(explicit)

        def run():
            sf = env.sf
            fill = -1
            inputs = [([10, 11], [0, 1, 2], [[100 + 10 * i + j for j in range(3)] for i in range(2)]),
                      ([12, 13], xs, [[200 + 10 * i + j for j in range(3)] for i in range(2)])]
            frames = [frame_from_table(env, cat, al, t, axis) for cat, al, t in inputs]
            kw = {}
            target = None
            if explicit:
                target = [2, 0, 1, 3]     # an explicit label order for the aligned axis
                kw = {'index' if axis == 1 else 'columns': target}
            r = sf.Frame.from_concat(frames, axis=axis, fill_value=fill, **kw)
            got = obs_by_label(env, r)
            cat_all, al_all, cell = ref_concat(inputs, True, fill)
            if explicit:
                al_all = target
            table = [[cell.get((cl, a), fill) for a in al_all] for cl in cat_all]
            if axis == 0:
                exp = [cat_all, al_all, table]
            else:
                exp = [al_all, cat_all, [[table[i][j] for i in range(len(cat_all))] for j in range(len(al_all))]]
            al_got = got[1] if axis == 0 else got[0]
            out, ref = [canon(got, axis)], [canon(exp, axis)]
            if explicit or xs == [0, 1, 2]:
                out.append(al_got); ref.append(al_all)      # order of the aligned axis is specified in these cases
            return out, ref
        return rt.untraced(run)
    return Cond(f'frame_concat_permuted3_axis{axis}', [('x0', 'int'), ('x1', 'int'), ('x2', 'int'), ('explicit', 'bool')], body,
            ranges={'x0': (0, 3), 'x1': (0, 3), 'x2': (0, 3)}, pre=['x0 != x1', 'x0 != x2', 'x1 != x2'],
            functions=['Frame.from_concat'],
            bounds='two frames with 3 labels on the aligned axis: [0, 1, 2] and three distinct labels symbolic in 0..3 in any order (identical / fully or PARTLY permuted / one label replaced); union, or an explicit label list for the aligned axis (symbolic choice); concrete cells, fill -1',
            route=f'Frame.from_concat(axis={axis}): each input re-aligned by label whatever part of its labels is already in place', tier=tier, timeout=300)


_add(mk_concat_perm3(0))
_add(mk_concat_perm3(1))


# ---------------------------------------------------------------- three inputs of differing dtype WIDTH (and kind): no cell is narrowed

CONCAT_KINDS = (('<U1', ('a', 'b')), ('<U5', ('ccccc', 'ddd')), ('int64', (3, 4)), ('float64', (1.5, 2.5)), ('bool', (True, False)))


def body_concat_widths(env, k0, k1, k2, how):
    from vf import rt
    ks = [concretize(v, 0, len(CONCAT_KINDS) - 1) for v in (k0, k1, k2)]
    how = concretize(how, 0, 3)

    def run():
        sf = env.sf
        parts = [CONCAT_KINDS[k] for k in ks]
        vals = [list(p[1]) for p in parts]
        flat = [v for vs in vals for v in vs]
        if how == 0:
            ser = [sf.Series(env.array(vs, p[0]), index=[10 * (i + 1), 10 * (i + 1) + 1]) for i, (vs, p) in enumerate(zip(vals, parts))]
            r = sf.Series.from_concat(ser)
            return [env.obs(r.values.tolist()), env.obs(r.index.values.tolist())], [flat, [10, 11, 20, 21, 30, 31]]
        if how == 1:
            # the LABELS are concatenated the same way
            ser = [sf.Series(env.array([i, i + 10], 'int64'), index=sf.Index(env.array(vs, p[0]))) for i, (vs, p) in enumerate(zip(vals, parts))]
            labels_distinct = len(set((type(v).__name__, v) for v in flat)) == len(flat) and len(set(flat)) == len(flat)
            if not labels_distinct:
                return ['outside: duplicate labels'], ['outside: duplicate labels']
            r = sf.Series.from_concat(ser)
            return [env.obs(r.index.values.tolist()), env.obs(r.values.tolist())], [flat, [0, 10, 1, 11, 2, 12]]
        if how == 2:
            frames = [sf.Frame.from_items((('x', env.array(vs, p[0])),), index=[10 * (i + 1), 10 * (i + 1) + 1]) for i, (vs, p) in enumerate(zip(vals, parts))]
            r = sf.Frame.from_concat(frames)
            return [env.obs(r['x'].values.tolist()), env.obs(r.index.values.tolist())], [flat, [10, 11, 20, 21, 30, 31]]
        items = [(('p', 'q', 'r')[i], sf.Series(env.array(vs, p[0]), index=[0, 1])) for i, (vs, p) in enumerate(zip(vals, parts))]
        r = sf.Series.from_concat_items(items)
        return [env.obs(r.values.tolist()), env.obs([list(t) for t in r.index])], [flat, [[o, i] for o in ('p', 'q', 'r') for i in (0, 1)]]
    return rt.untraced(run)


_add(Cond('concat_three_inputs_dtype_widths', [('k0', 'int'), ('k1', 'int'), ('k2', 'int'), ('how', 'int')], body_concat_widths,
        ranges={'k0': (0, 4), 'k1': (0, 4), 'k2': (0, 4), 'how': (0, 3)},
        functions=['concat_resolved', 'Series.from_concat'],
        bounds=f'three inputs of 2 cells; the dtype of every input symbolic over {[k for k, _ in CONCAT_KINDS]} (narrow / wide strings in every order, mixed kinds); Series.from_concat values, Series.from_concat labels, Frame.from_concat, Series.from_concat_items (symbolic)',
        route='concatenation of three inputs: every cell (and label) arrives unchanged whatever the dtype of its neighbours', timeout=400))


# ---------------------------------------------------------------- overlay over every block layout of the first container

def body_overlay_layouts(env, a0, a1, a2, b0, b1, b2):
    from vf import rt
    fa_, fb_ = [bool(a0), bool(a1), bool(a2)], [bool(b0), bool(b1), bool(b2)]

    def run():
        sf = env.sf
        from static_frame.core.type_blocks import TypeBlocks
        M = 'NaN'
        ra = [[(env.nan if fa_[c] and r == 0 else 100 + 10 * r + c) for c in range(3)] for r in range(2)]
        rb = [[(env.nan if fb_[c] and r == 0 else 200 + 10 * r + c) for c in range(3)] for r in range(2)]
        ref = [[(M if (fa_[c] and r == 0 and fb_[c]) else (200 + 10 * r + c if (fa_[c] and r == 0) else 100 + 10 * r + c)) for c in range(3)] for r in range(2)]
        cols_b = [[rb[r][c] for r in range(2)] for c in range(3)]
        fb = sf.Frame(TypeBlocks.from_blocks(layouts.build_blocks(env, cols_b, 'float64', ((1, 1), (1, 1), (1, 1)))), index=[10, 11], columns=['a', 'b', 'c'])
        cols_a = [[ra[r][c] for r in range(2)] for c in range(3)]
        got = []
        for lay in layouts.compositions(3):
            fa = sf.Frame(TypeBlocks.from_blocks(layouts.build_blocks(env, cols_a, 'float64', lay)), index=[10, 11], columns=['a', 'b', 'c'])
            r = sf.Frame.from_overlay((fa, fb))
            got.append([env.obs(r.values.tolist()), env.obs(r.columns.values.tolist()), env.obs(r.index.values.tolist())])
        return got, [[ref, ['a', 'b', 'c'], [10, 11]]] * len(got)
    return rt.untraced(run)


_add(Cond('frame_overlay_all_layouts', [(p, 'bool') for p in ('a0', 'a1', 'a2', 'b0', 'b1', 'b2')], body_overlay_layouts,
        functions=['Frame.from_overlay', 'TypeBlocks.fillna_by_values'],
        bounds='two 2x3 float64 frames with equal labels; first-row cells of either frame possibly missing (one symbolic Boolean per column and frame); the FIRST frame in every block layout of 3 columns',
        route='Frame.from_overlay: per cell the first non-missing value, whatever blocks hold the first container (blocks without missing cells before blocks with them)', timeout=300))
