"""C09: grow-only containers: append-only, all-or-nothing, never shared.

Real functions executed: FrameGO.__setitem__ / extend / extend_items / to_frame / to_frame_go,
Frame.to_frame_go, Frame.__init__ (ownership flags), TypeBlocks.append / extend / copy,
IndexGO.append / extend, IndexHierarchyGO.append / extend.
Symbolic: the new column labels of every growth step (new / duplicate of an existing label /
duplicate inside the same call), the supplied values, label order of supplied Series.  After EVERY
step: accepted => old content unchanged and new labels appended in order; rejected => full snapshot
equals the pre-step snapshot and labels/data are in step; every container derived earlier (both
directions) still equals its own snapshot."""
from vf.cond import Cond
from vf.refmodels import obs_frame_full

CONDS = {}
ASSUMPTIONS = ['column labels are ints (symbolic, unbounded); cells ints']
OUTSIDE = ('growth racing with iteration in another thread; the ~240 own_* call sites are covered only through the derivations listed; histories longer than 2 growth calls (quick) / 3 (thorough)')
TRACES_QUICK = 24


def _add(c):
    CONDS[c.name] = c
    return c


def _conc(v, lo, hi):
    for k in range(lo, hi + 1):
        if v == k:
            return k
    raise AssertionError('out of range')


PROBES = (-1, 0, 1, 2, 3, 99)


def snap(env, f):
    o = obs_frame_full(env, f)
    o.append([len(f.columns), f._blocks.shape[1], len(f._blocks._dtypes)])
    # label membership as the column index answers it (a derived index must not learn labels its source gained later)
    o.append([lab in f.columns for lab in PROBES])
    return o


def ref_frame(index, table):
    """table: list of (label, column cells) in column order (no dict: labels may be symbolic)"""
    n = len(table)
    held = [l for l, _ in table]
    return ['F', list(index), held, [[table[c][1][r] for c in range(n)] for r in range(len(index))],
            ['i'] * n, None, [n, n, n], [lab in held for lab in PROBES]]


def coherent(env, f):
    """labels and data in step, every column readable"""
    ok = len(f.columns) == f._blocks.shape[1] == len(f._blocks._dtypes)
    for lab in list(f.columns):
        _ = f[lab].values.tolist()
    return ok


GROW_ERRORS = None


def grow_errors():
    from static_frame.core.exception import ErrorInit
    return (RuntimeError, KeyError, ValueError, ErrorInit)


def mk_history(kinds, tier='quick', timeout=240):
    """kinds: tuple of growth-call kinds applied in order."""
    def body(env, **kw):
        from vf import rt
        # labels decide accept / reject; they are split by value up front (the library hashes them),
        # supplied cell values are constants (they only flow), so the rest runs concretely
        kw = {k: _conc(v, -1, 3) for k, v in kw.items()}
        for si in range(len(kinds)):
            kw[f'v{si}'] = 50 + 10 * si
        return rt.untraced(lambda: run(env, kw))

    def run(env, kw):
        sf = env.sf
        from vf import rt
        index = [10, 11]
        table = [(0, [100, 101]), (1, [200, 201])]
        g = rt.untraced(lambda: sf.FrameGO.from_items(((0, env.array([100, 101], 'int64')), (1, env.array([200, 201], 'int64'))), index=index))
        static_src = rt.untraced(lambda: sf.Frame.from_items(((0, env.array([100, 101], 'int64')), (1, env.array([200, 201], 'int64'))), index=index))
        g2 = static_src.to_frame_go()      # static -> grow-only: growth of g2 must never show through static_src
        derived = [('to_frame', g.to_frame()), ('to_frame_go', g.to_frame_go()), ('selection', g[[1, 0]]), ('ctor', sf.Frame(g)),
                   ('set_index', g.set_index(0)), ('set_index_drop', g.set_index(0, drop=True)), ('relabel', g.relabel(index=(7, 8))),
                   ('rename', g.rename('other')), ('deepcopy', __import__('copy').deepcopy(g))]
        dsnaps = [snap(env, d) for _, d in derived]
        ssnap = snap(env, static_src)
        trace, exp = [], []
        for si, kind in enumerate(kinds):
            k = kw[f'k{si}']
            v = kw[f'v{si}']
            before = snap(env, g)
            new_cols = None
            try:
                if kind == 'setitem_scalar':
                    g[k] = v
                    new_cols = [(k, [v, v])]
                elif kind == 'setitem_list':
                    g[k] = [v, v + 1]
                    new_cols = [(k, [v, v + 1])]
                elif kind == 'setitem_wrong_len':
                    g[k] = [v, v + 1, v + 2]
                    new_cols = 'must-reject'
                elif kind == 'setitem_series_permuted':
                    g[k] = sf.Series(env.array([v + 1, v], 'int64'), index=[11, 10])
                    new_cols = [(k, [v, v + 1])]
                elif kind == 'extend_frame':
                    k2 = kw[f'j{si}']
                    other = sf.Frame.from_items(((k, env.array([v, v + 1], 'int64')), (k2, env.array([v + 2, v + 3], 'int64'))), index=index)
                    g.extend(other)
                    new_cols = [(k, [v, v + 1]), (k2, [v + 2, v + 3])]
                elif kind == 'extend_items':
                    k2 = kw[f'j{si}']
                    g.extend_items(((k, [v, v + 1]), (k2, [v + 2, v + 3])))
                    new_cols = [(k, [v, v + 1]), (k2, [v + 2, v + 3])]
                elif kind == 'extend_series':
                    g.extend(sf.Series(env.array([v, v + 1], 'int64'), index=index, name=k))
                    new_cols = [(k, [v, v + 1])]
                else:
                    raise AssertionError(kind)
                accepted = True
            except grow_errors():
                accepted = False
            # reference decision
            if kind == 'setitem_wrong_len':
                ref_accept = False
            else:
                labs = [k] + ([kw[f'j{si}']] if kind in ('extend_frame', 'extend_items') else [])
                held = [l for l, _ in table]
                ref_accept = all(l not in held for l in labs) and (len(labs) == 1 or labs[0] != labs[1])
            trace.append(accepted)
            exp.append(ref_accept)
            if ref_accept and accepted:
                for lab, col in new_cols:
                    table.append((lab, col))
            trace.append([snap(env, g), coherent(env, g)])
            exp.append([ref_frame(index, table), True])
            if not ref_accept and not accepted:
                trace.append(snap(env, g) == before)
                exp.append(True)
            # containers derived before the growth are untouched, in both directions
            trace.append([snap(env, d) for _, d in derived])
            exp.append(dsnaps)
        # growth of a grow-only frame made from a static one never shows through the static one
        g2[99] = 1
        trace.append(snap(env, static_src))
        exp.append(ssnap)
        # ... and growth of every grow-only container DERIVED from g never shows through g or its other derivations
        gsnap = snap(env, g)
        for name, d in derived:
            if isinstance(d, sf.FrameGO):
                d[99] = 1
        trace.append([snap(env, g), [snap(env, d) for _, d in derived if not isinstance(d, sf.FrameGO)]])
        exp.append([gsnap, [sn for (_, d), sn in zip(derived, dsnaps) if not isinstance(d, sf.FrameGO)]])
        return trace, exp
    params = []
    for si, kind in enumerate(kinds):
        params += [(f'k{si}', 'int')]
        if kind in ('extend_frame', 'extend_items'):
            params.append((f'j{si}', 'int'))
    ranges = {p: (-1, 3) for p, _ in params if p[0] in 'kj'}   # labels get hashed (set / dict) by the library: bounded, enumerated by the solver
    return Cond('framego_' + '__'.join(kinds), params, body, ranges=ranges,
            functions=['FrameGO.__setitem__' if any(k.startswith('setitem') for k in kinds) else 'FrameGO.extend', '_IndexGOMixin.append', 'TypeBlocks.append'],
            bounds=f'FrameGO 2x2 with int labels; growth calls {kinds}; new labels symbolic in -1..3 (so: new / duplicate of an existing label / duplicate inside the call), supplied values constant',
            route='growth history with derived containers (to_frame, to_frame_go, selection, Frame(fgo)) snapshotted before it', tier=tier, timeout=timeout)


_add(mk_history(('setitem_scalar', 'setitem_list')))
_add(mk_history(('setitem_series_permuted', 'setitem_wrong_len')))
_add(mk_history(('extend_frame',)))
_add(mk_history(('extend_items',)))
_add(mk_history(('extend_series', 'setitem_scalar')))
_add(mk_history(('extend_frame', 'setitem_scalar'), tier='thorough', timeout=900))
_add(mk_history(('setitem_scalar', 'extend_frame', 'setitem_list'), tier='thorough', timeout=1500))
_add(mk_history(('extend_items', 'extend_frame'), tier='thorough', timeout=1500))


# ---------------------------------------------------------------- IndexGO / IndexHierarchyGO growth is all-or-nothing

def body_indexgo_extend(env, a, b, read):
    sf = env.sf
    from vf import rt
    idx = rt.untraced(lambda: sf.IndexGO([10, 20]))
    static = sf.Index(idx)
    if read:
        _ = idx.values
    before = [env.obs(list(idx)), len(idx)]
    try:
        idx.extend([a, b])
        accepted = True
    except grow_errors():
        accepted = False
    ref_accept = a not in (10, 20) and b not in (10, 20) and a != b
    labels = [10, 20] + ([a, b] if ref_accept else [])
    got = [accepted, env.obs(list(idx)), len(idx), env.obs(idx.values.tolist()), [env.obs(idx.loc_to_iloc(l)) for l in labels],
           env.obs(list(static)), [bool(x in static) for x in (a, b)], len(static), env.obs(static.values.tolist())]
    exp = [ref_accept, labels, len(labels), labels, list(range(len(labels))), [10, 20], [a in (10, 20), b in (10, 20)], 2, [10, 20]]
    return got, exp


_add(Cond('indexgo_extend_all_or_nothing', [('a', 'int'), ('b', 'int'), ('read', 'bool')], body_indexgo_extend, ranges={'a': (9, 21), 'b': (9, 21)},
        functions=['_IndexGOMixin.extend', '_IndexGOMixin.append'],
        bounds='IndexGO [10, 20]; extend([a, b]) with a, b symbolic in 9..21; symbolic choice of materialising caches first',
        route='IndexGO.extend: either both labels are appended or the index is exactly as before; a static Index made from it is unaffected'))


def body_ihgo_extend(env, a, b, read):
    from vf import rt
    a, b, read = _conc(a, 9, 11), _conc(b, 9, 11), bool(read)

    def run():
        sf = env.sf
        tuples = [(1, 10), (1, 11), (2, 10)]
        g = sf.IndexHierarchyGO.from_labels(list(tuples))
        static = sf.IndexHierarchy(g)
        if read:
            _ = g.values      # materialise the label cache before the growth
        other = sf.IndexHierarchy.from_labels([(3, a), (3, b)])
        try:
            g.extend(other)
            accepted = True
        except grow_errors():
            accepted = False
        # conversions taken right after the growth, with no read of g in between (a stale cache must not be handed over)
        after_static = sf.IndexHierarchy(g)
        after_renamed = g.rename('r')
        labels = tuples + [(3, a), (3, b)]
        got = [accepted,
               env.obs([tuple(t) for t in after_static]), len(after_static), env.obs([tuple(r) for r in after_static.values.tolist()]),
               env.obs([tuple(t) for t in after_renamed]), len(after_renamed),
               env.obs([tuple(t) for t in g]), len(g), env.obs([tuple(r) for r in g.values.tolist()]),
               env.obs([tuple(t) for t in static]), len(static)]
        full = [list(t) for t in labels]
        exp = [True, full, 5, full, full, 5, full, 5, full, [list(t) for t in tuples], 3]
        return got, exp
    return rt.untraced(run)


_add(Cond('indexhierarchygo_extend', [('a', 'int'), ('b', 'int'), ('read', 'bool')], body_ihgo_extend, ranges={'a': (9, 11), 'b': (9, 11)}, pre=['a != b'],
        functions=['IndexHierarchyGO.extend'],
        bounds='IndexHierarchyGO of 3 leaves extended with 2 leaves under a new outer label, inner labels symbolic in 9..11; symbolic choice of materialising the label cache before the growth',
        route='IndexHierarchyGO.extend: new leaves follow in order; a static copy taken before is unaffected; IndexHierarchy(g) / g.rename() taken right after hold all labels', timeout=240))


def body_framego_hier_columns(env, a, read, how):
    """FrameGO with hierarchical (IndexHierarchyGO) columns: growth, then conversion to a static Frame."""
    sf = env.sf
    from vf import rt
    a = _conc(a, 9, 11)
    read, how = bool(read), _conc(how, 0, 2)

    def run():
        cols = sf.IndexHierarchyGO.from_labels([(1, 10), (1, 11)])
        g = sf.FrameGO(env.array([[1, 2], [3, 4]], 'int64'), index=(100, 101), columns=cols)
        if read:
            _ = g.columns.values
        try:
            g[(2, a)] = env.array([5, 6], 'int64')
            accepted = True
        except grow_errors():
            accepted = False
        if how == 0:
            st = g.to_frame()
        elif how == 1:
            st = sf.Frame(g)
        else:
            st = g.to_frame_go()
        labels = [[1, 10], [1, 11], [2, a]]
        rows = [[1, 2, 5], [3, 4, 6]]
        got = [accepted, env.obs([list(t) for t in st.columns]), list(st.shape), env.obs(st.values.tolist()), env.obs(st.columns.values.tolist()),
               env.obs([list(t) for t in g.columns]), list(g.shape), env.obs(g.values.tolist())]
        exp = [True, labels, [2, 3], rows, labels, labels, [2, 3], rows]
        return got, exp
    return rt.untraced(run)


_add(Cond('framego_hierarchical_columns_grow_then_convert', [('a', 'int'), ('read', 'bool'), ('how', 'int')], body_framego_hier_columns,
        ranges={'a': (9, 11), 'how': (0, 2)},
        functions=['FrameGO.__setitem__', 'IndexHierarchyGO.append'],
        bounds='FrameGO 2x2 with IndexHierarchyGO columns; one new column under a new outer label (inner label symbolic in 9..11); symbolic choice of reading the columns (cache materialised) before the growth and of the conversion (to_frame / Frame(g) / to_frame_go)',
        route='FrameGO[(outer, inner)] = column, then conversion: the converted frame has every label and the data in step', timeout=240))


# ---------------------------------------------------------------- typed (datetime) grow-only index: all-or-nothing over label FORMS

def body_indexdatego_extend(env, d0, d1, f0, f1, read):
    """The same day may be supplied as an ISO string, a datetime.date or a datetime64: duplicates are duplicates of the
    LABEL, whatever the form."""
    from vf import rt
    import datetime
    d0, d1, f0, f1, read = _conc(d0, 1, 3), _conc(d1, 1, 3), _conc(f0, 0, 2), _conc(f1, 0, 2), bool(read)

    def run():
        sf = env.sf
        import numpy as real_np   # label values only: concrete datetime64 scalars are NumPy's own objects in both worlds

        def form(day, f):
            if f == 0:
                return f'2020-01-0{day}'
            if f == 1:
                return datetime.date(2020, 1, day)
            return real_np.datetime64(f'2020-01-0{day}')
        idx = sf.IndexDateGO(('2020-01-01',))
        static = sf.IndexDate(idx)
        if read:
            _ = idx.values
        try:
            idx.extend((form(d0, f0), form(d1, f1)))
            accepted = True
        except grow_errors():
            accepted = False
        ref_accept = d0 != 1 and d1 != 1 and d0 != d1
        days = [1] + ([d0, d1] if ref_accept else [])
        labels = [f'2020-01-0{d}' for d in days]
        got = [accepted, [str(x) for x in idx], len(idx), [str(x) for x in idx.values.tolist()], [env.obs(idx.loc_to_iloc(l)) for l in labels],
               [str(x) for x in static], len(static)]
        exp = [ref_accept, labels, len(labels), labels, list(range(len(labels))), ['2020-01-01'], 1]
        return got, exp
    return rt.untraced(run)


_add(Cond('indexdatego_extend_all_or_nothing', [('d0', 'int'), ('d1', 'int'), ('f0', 'int'), ('f1', 'int'), ('read', 'bool')], body_indexdatego_extend,
        ranges={'d0': (1, 3), 'd1': (1, 3), 'f0': (0, 2), 'f1': (0, 2)},
        functions=['_IndexGOMixin.extend', '_IndexDatetimeGOMixin.append'],
        bounds='IndexDateGO [2020-01-01]; extend by two days symbolic in Jan 1..3, each given as an ISO string / datetime.date / datetime64 (symbolic form); cache materialised or not',
        route='IndexDateGO.extend: both labels appended or the index exactly as before (duplicates are duplicates of the label whatever its form); a static copy is unaffected', timeout=300))


# ---------------------------------------------------------------- deep hierarchies: extend from a GROW-ONLY source, then either side grows

def body_ihgo_deep_extend(env, a, which, via_frame, read):
    from vf import rt
    a, which, via_frame, read = _conc(a, 9, 12), _conc(which, 0, 1), bool(via_frame), bool(read)

    def run():
        sf = env.sf
        t1 = [(1, 5, 10), (1, 5, 11)]
        t2 = [(2, 6, 10), (2, 6, 11)]

        def views(ix):
            probes = [(2, 6, a), (1, 5, a)]
            return [env.obs([list(t) for t in ix]), len(ix), env.obs(ix.values.tolist()), [bool(p in ix) for p in probes], list(ix.shape)]
        if via_frame:
            f1 = sf.FrameGO(env.array([[1, 2]], 'int64'), columns=sf.IndexHierarchyGO.from_labels(t1))
            f2 = sf.FrameGO(env.array([[3, 4]], 'int64'), columns=sf.IndexHierarchyGO.from_labels(t2))
            f1.extend(f2)
            g1, g2 = f1.columns, f2.columns
        else:
            g1 = sf.IndexHierarchyGO.from_labels(t1)
            g2 = sf.IndexHierarchyGO.from_labels(t2)
            g1.extend(g2)
        if read:
            _ = g1.values, g2.values
        before = [views(g1), views(g2)]
        new = (2, 6, a)
        grown, other = (g1, g2) if which == 0 else (g2, g1)
        try:
            if via_frame:
                (f1 if which == 0 else f2)[new] = env.array([9], 'int64')
            else:
                grown.append(new)
            accepted = True
        except grow_errors():
            accepted = False
        held = a in (10, 11)
        all1 = [list(t) for t in t1 + t2]
        exp_before = [[all1, 4, all1, [held, held], [4, 3]], [[list(t) for t in t2], 2, [list(t) for t in t2], [held, False], [2, 3]]]
        base = t1 + t2 if which == 0 else t2
        exp_grown_t = [list(t) for t in base] + ([list(new)] if not held else [])
        got = [before, accepted, views(grown), views(other)]
        exp = [exp_before, not held,
               [exp_grown_t, len(exp_grown_t), exp_grown_t, [True, (a in (10, 11)) and which == 0], [len(exp_grown_t), 3]],
               exp_before[1] if which == 0 else exp_before[0]]
        if via_frame:
            got.append([list(f1.shape), list(f2.shape)])
            n1 = 4 + (1 if (which == 0 and not held) else 0)
            n2 = 2 + (1 if (which == 1 and not held) else 0)
            exp.append([[1, n1], [1, n2]])
        return got, exp
    return rt.untraced(run)


_add(Cond('indexhierarchygo_depth3_extend_from_go_then_growth', [('a', 'int'), ('which', 'int'), ('via_frame', 'bool'), ('read', 'bool')], body_ihgo_deep_extend,
        ranges={'a': (9, 12), 'which': (0, 1)},
        functions=['IndexLevelGO.extend', 'IndexHierarchyGO.extend'],
        bounds='two depth-3 IndexHierarchyGO (or FrameGO with such columns, symbolic); the first is extended with the second (a GROW-ONLY source); then one of the two (symbolic) gains the leaf (2, 6, a), a symbolic in 9..12 (new or held); caches read or not',
        route='extend from a grow-only source shares nothing: growth of either side afterwards leaves every view of the other (tuples, len, values, membership, shape) unchanged', timeout=300))
