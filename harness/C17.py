"""C17: Bus and multi-table stores: lazy, bounded, and stale-file safe (the on-disk encodings are outside).

(a) Laziness / LRU bound / derived Buses: the real Bus.__init__ / _derive / _update_series_cache_iloc /
    _store_reader / _extract_iloc / _extract_loc / iloc / loc / _drop_iloc / reindex / sort_index over a
    model-world Series of FrameDeferred and an in-memory StoreModel (records every read and the config
    it was given).  Symbolic: the access history (each access an int position, or a 2-entry position
    list), with max_persist fixed per condition.  After every step: the Frame returned for a label is
    the one stored under it; loaded count <= max_persist; `_loaded[i]` <=> cell i is a Frame; the set of
    loaded labels equals a 10-line reference LRU; only labels that had to be loaded were read.
(b) Stale-file safety: the real Store._mtime_update / _mtime_coherent and the two decorators with
    os.path.exists / getmtime replaced by arbitrary (symbolic) answers that may change between calls.
"""
from vf.cond import Cond

CONDS = {}
ASSUMPTIONS = ['the store is an in-memory stub (read / read_many / labels as documented by Store); file-system answers are arbitrary']
OUTSIDE = ('faithfulness of the zip / SQLite / XLSX / HDF5 encodings (zipfile, sqlite3, pickle, csv are C / I/O); real file-system timing; histories longer than 3 (quick) / 4 (thorough)')
TRACES_QUICK = 30

LABELS = ['a', 'b', 'c']


def _add(c):
    CONDS[c.name] = c
    return c


def concretize(v, lo, hi):
    for k in range(lo, hi + 1):
        if v == k:
            return k
    raise AssertionError('out of range')


def make_store(env, per_label_config):
    sf = env.sf
    from static_frame.core.store import Store, StoreConfig, StoreConfigMap

    class StoreModel(Store):
        __slots__ = ('frames', 'log')
        _EXT = frozenset(('.zip',))

        def __init__(self, frames):
            self._fp = 'model.zip'
            self._last_modified = 0
            self.frames = frames
            self.log = []

        def labels(self, *, config=None, strip_ext=True):
            return iter(list(self.frames))

        def read(self, label, *, config=None, container_type=None):
            self.log.append([label, getattr(config, 'skip_header', 'none-config')])
            return self.frames[label]

        def read_many(self, labels, *, config=None, container_type=None):
            for label in labels:
                c = config[label] if config is not None else None
                self.log.append([label, getattr(c, 'skip_header', 'none-config')])
                yield self.frames[label]

    frames = {l: sf.Frame.from_items((('v', env.array([10 * i, 10 * i + 1], 'int64')),), name=l) for i, l in enumerate(LABELS)}
    store = StoreModel(frames)
    if per_label_config:
        # a per-label config whose marker (skip_header) identifies it in the read log
        cfg = StoreConfigMap({l: StoreConfig(skip_header=10 + i) for i, l in enumerate(LABELS)})
    else:
        cfg = None
    return store, frames, cfg


class RefLRU:
    def __init__(self, max_persist):
        self.mp = max_persist
        self.order = []      # least recently used first

    def access(self, label):
        """-> True iff the label had to be read"""
        read = label not in self.order
        if not read:
            self.order.remove(label)
        self.order.append(label)
        if self.mp is not None and len(self.order) > self.mp:
            self.order.pop(0)
        return read


def bus_state(env, bus):
    vals = bus._series.values.tolist()
    sf = env.sf
    return [[env.obs(bool(x)) for x in bus._loaded.tolist()], [isinstance(v, sf.Frame) for v in vals]]


def mk_history(max_persist, kinds, per_label_config=False, tier='quick', timeout=300):
    def body(env, **kw):
        from vf import rt
        kw = {k: concretize(v, 0, 2) for k, v in kw.items()}   # positions: split by value, then everything is concrete
        return rt.untraced(lambda: run(env, kw))

    def run(env, kw):
        sf = env.sf
        store, frames, cfg = make_store(env, per_label_config)
        bus = sf.Bus._from_store(store, config=cfg, max_persist=max_persist)
        lru = RefLRU(max_persist)
        trace, exp = [], []
        derived_later = []
        for si, kind in enumerate(kinds):
            n_log = len(store.log)
            if kind == 'int':
                k = kw[f'k{si}']
                labels = [LABELS[k]]
                r = bus.iloc[k]
                trace.append([env.obs(r.name), env.obs(r.values.tolist())])
                exp.append([labels[0], [[10 * k], [10 * k + 1]]])
            elif kind == 'loc':
                k = kw[f'k{si}']
                labels = [LABELS[k]]
                r = bus.loc[LABELS[k]]
                trace.append([env.obs(r.name), env.obs(r.values.tolist())])
                exp.append([labels[0], [[10 * k], [10 * k + 1]]])
            elif kind == 'list':
                k = kw[f'k{si}']
                j = kw[f'j{si}']
                labels = [LABELS[k], LABELS[j]]
                r = bus.iloc[[k, j]]
                trace.append(env.obs(r.index.values.tolist()))
                exp.append(labels)
            elif kind == 'derive_slice':
                # a Bus derived by a SLICE after its members were loaded: later loads / evictions of the parent must not show in it
                k = kw[f'k{si}']
                lo = 0 if k < 2 else 1
                _ = bus.iloc[[lo, lo + 1]]                      # load them in the parent first
                for l in (LABELS[lo], LABELS[lo + 1]):
                    lru.access(l)
                d = bus.iloc[lo:lo + 2]
                derived_later.append((d, [LABELS[lo], LABELS[lo + 1]]))
                trace.append(env.obs(d.index.values.tolist()))
                exp.append([LABELS[lo], LABELS[lo + 1]])
                labels = []
                n_log = len(store.log)
            elif kind == 'derive_drop':
                k = kw[f'k{si}']
                d = bus.drop.iloc[k]
                keep = [l for i, l in enumerate(LABELS) if i != k]
                # the derived Bus keeps serving the right Frames from the same store
                got = [env.obs(d.index.values.tolist())]
                for l in keep:
                    f = d.loc[l]
                    got.append([env.obs(f.name), env.obs(f.values.tolist())])
                trace.append(got)
                exp.append([keep] + [[l, [[10 * LABELS.index(l)], [10 * LABELS.index(l) + 1]]] for l in keep])
                labels = []
                n_log = len(store.log)   # reads of the derived Bus are checked by content above
            else:
                raise AssertionError(kind)
            # a label needs reading iff it was not loaded when the call started (the call holds on to the Frames that were
            # loaded, also if one of them is evicted and re-admitted while the call proceeds)
            loaded_before = list(lru.order)
            reads_expected = [l for l in labels if l not in loaded_before]
            for l in labels:
                lru.access(l)
            new_reads = store.log[n_log:]
            trace.append([[r_[0] for r_ in new_reads], bus_state(env, bus)])
            loaded_ref = [l in lru.order for l in LABELS]
            exp.append([reads_expected, [loaded_ref, loaded_ref]])
            if per_label_config:
                # every read must have been given THAT label's config
                trace.append([r_[1] for r_ in new_reads])
                exp.append([10 + LABELS.index(r_[0]) for r_ in new_reads])
            if max_persist is not None:
                trace.append(sum(1 for x in bus._loaded.tolist() if x) <= max_persist)
                exp.append(True)
        # every Bus derived on the way still serves the right Frames, through every read route
        for d, labs in derived_later:
            got = []
            for l in labs:
                f = d.loc[l]
                got.append([isinstance(f, sf.Frame), env.obs(f.name) if isinstance(f, sf.Frame) else repr(f), env.obs(f.values.tolist()) if isinstance(f, sf.Frame) else None])
            got.append([[env.obs(n), isinstance(f, sf.Frame)] for n, f in d.items()])
            trace.append(got)
            exp.append([[True, l, [[10 * LABELS.index(l)], [10 * LABELS.index(l) + 1]]] for l in labs] + [[[l, True] for l in labs]])
        return trace, exp
    params = []
    for si, kind in enumerate(kinds):
        params.append((f'k{si}', 'int'))
        if kind == 'list':
            params.append((f'j{si}', 'int'))
    ranges = {p: (0, 2) for p, _ in params}
    pre = [f'k{si} != j{si}' for si, kind in enumerate(kinds) if kind == 'list']
    return Cond(f'bus_history_mp{max_persist}_{"_".join(kinds)}' + ('_cfg' if per_label_config else ''), params, body, ranges=ranges, pre=pre,
            functions=['Bus._update_series_cache_iloc', 'Bus._extract_iloc'] + (['Bus._store_reader'] if 'list' in kinds else []),
            bounds=f'Bus over 3 stored frames, max_persist = {max_persist}; access history {kinds} with every position symbolic in 0..2' + ('; per-label store configs' if per_label_config else ''),
            route='Bus.iloc / loc / drop: returned Frame is the stored one; loaded set == reference LRU; loaded count <= max_persist; only necessary reads', tier=tier, timeout=timeout)


_add(mk_history(None, ('int', 'list', 'int')))
_add(mk_history(1, ('int', 'int', 'int')))
_add(mk_history(2, ('int', 'list', 'int')))
_add(mk_history(2, ('list', 'loc', 'int')))
_add(mk_history(1, ('list', 'int'), per_label_config=True))
_add(mk_history(1, ('derive_slice', 'int', 'int')))
_add(mk_history(2, ('derive_slice', 'list', 'int')))
_add(mk_history(2, ('list', 'int'), per_label_config=True))
_add(mk_history(2, ('int', 'derive_drop', 'int')))
_add(mk_history(3, ('list', 'list', 'int')))
_add(mk_history(2, ('int', 'list', 'int', 'list'), tier='thorough', timeout=1500))
_add(mk_history(1, ('list', 'list', 'int', 'int'), per_label_config=True, tier='thorough', timeout=1500))
_add(mk_history(None, ('list', 'derive_drop', 'list', 'int'), tier='thorough', timeout=1500))


# ---------------------------------------------------------------- stale-file safety

def body_mtime(env, e0, m0, e1, m1, e2, m2, do_write):
    """One Store with a recorded state; the file system answers arbitrarily at each call."""
    from static_frame.core import store as store_mod
    from static_frame.core.store import Store, store_coherent_non_write, store_coherent_write
    from static_frame.core.exception import StoreFileMutation
    answers = [(e0, concretize(m0, 0, 2)), (e1, concretize(m1, 0, 2)), (e2, concretize(m2, 0, 2))]
    state = {'i': 0}

    class FakePath:
        @staticmethod
        def exists(fp):
            return answers[state['i']][0]

        @staticmethod
        def getmtime(fp):
            return answers[state['i']][1]

        @staticmethod
        def splitext(fp):
            import os
            return os.path.splitext(fp)

    class FakeOS:
        path = FakePath

    class S(Store):
        _EXT = frozenset(('.zip',))

        @store_coherent_non_write
        def read(self, label):
            return 'data'

        @store_coherent_write
        def write(self, items):
            return None

    real_os = store_mod.os
    store_mod.os = FakeOS
    try:
        s = S('x.zip')            # records state 0
        recorded = answers[0][1] if answers[0][0] else None
        out, exp = [], []
        state['i'] = 1
        if do_write:
            s.write(())           # re-records state 1
            recorded = answers[1][1] if answers[1][0] else None
        else:
            try:
                out.append(s.read('a'))
            except StoreFileMutation:
                out.append('StoreFileMutation')
            exists, mtime = answers[1]
            stale = (exists and mtime != recorded) or (not exists and recorded is not None)
            exp.append('StoreFileMutation' if stale else 'data')
        state['i'] = 2
        try:
            out.append(s.read('a'))
        except StoreFileMutation:
            out.append('StoreFileMutation')
        exists, mtime = answers[2]
        stale = (exists and mtime != recorded) or (not exists and recorded is not None)
        exp.append('StoreFileMutation' if stale else 'data')
    finally:
        store_mod.os = real_os
    return out, exp


_add(Cond('store_mtime_coherence', [('e0', 'bool'), ('m0', 'int'), ('e1', 'bool'), ('m1', 'int'), ('e2', 'bool'), ('m2', 'int'), ('do_write', 'bool')], body_mtime,
        ranges={'m0': (0, 2), 'm1': (0, 2), 'm2': (0, 2)},
        functions=['Store._mtime_update', 'Store._mtime_coherent'],
        bounds='three file-system observations (exists: symbolic bool, mtime: symbolic in 0..2) at construction, at a read-or-write, and at a final read',
        route='Store read raises StoreFileMutation iff the file was modified, replaced or removed since the state was recorded; a write re-records', timeout=300))



# ---------------------------------------------------------------- zipped stores: labels survive the archive member names

def body_zip_labels(env, l0, l1, l2, strip):
    """The real _StoreZip.write / labels over the in-memory archive of harness/C18: labels with dots, with the contained
    extension inside them, and plain ones come back exactly, in order."""
    from vf import rt
    from harness.C18 import _probe_store
    pool = ('a', 'v1.0', 'a.b.c', 'x.txt.y', 'plain', '2020-01-01 00:00:00.5')
    labs = []
    for v in (l0, l1, l2):
        for k in range(len(pool)):
            if v == k:
                labs.append(pool[k])
    strip = bool(strip)

    def run():
        sz, store_mod, FakeZipModule, FakeOS, FakeZip, ProbeStore = _probe_store(env)
        saved = (sz.zipfile, store_mod.os)
        sz.zipfile, store_mod.os = FakeZipModule, FakeOS
        try:
            st = ProbeStore('probe.zip')
            st.write(((l, 'frame-' + l) for l in labs))
            got = [list(st.labels(strip_ext=strip)), sorted(FakeZip.files)]
            exp = [list(labs) if strip else [l + '.txt' for l in labs], sorted(l + '.txt' for l in labs)]
            # and every label read back by its own name returns its own bytes
            got.append([r[0:2] for r in st.read_many(labs)])
            exp.append([(l, (l, 'frame-' + l, True)) for l in labs])
            return got, exp
        finally:
            sz.zipfile, store_mod.os = saved
    return rt.untraced(run)


_add(Cond('store_zip_labels_roundtrip', [('l0', 'int'), ('l1', 'int'), ('l2', 'int'), ('strip', 'bool')], body_zip_labels,
        ranges={'l0': (0, 5), 'l1': (0, 5), 'l2': (0, 5)}, pre=['l0 != l1', 'l0 != l2', 'l1 != l2'],
        functions=['_StoreZip.labels', '_StoreZip.write'],
        bounds='zipped-store base class over an in-memory archive; three distinct labels symbolic over a pool with dots, the contained extension inside the label, a sub-second timestamp string, and plain labels; strip_ext symbolic',
        route='_StoreZip.write then labels() / read_many: the labels come back exactly and in order (only the contained extension is removed), each label reads its own member', timeout=300))
