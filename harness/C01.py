"""C01: immutability: no public operation changes an existing static container.

Three assertions per condition: (i) every NumPy array reachable from a result (blocks, values, index
labels / positions) is read-only; (ii) a deep snapshot of the source container is unchanged after the
call (also when it raises); (iii) an array supplied by the caller is either already read-only or was
copied: after the caller writes into it (allowed only while it is writeable) the container snapshot
is unchanged.  Symbolic inputs: the writeable flag and view status of every caller-supplied array,
the position and value of the caller's later write, operation keys / shifts / fill values.
Real functions executed: immutable_filter, TypeBlocks.from_blocks / append / extend /
__deepcopy__ / __setstate__, Series.__init__, Index.__init__, Frame.__init__, and the
block-producing operations listed in OPS below."""
import copy
import pickle

from vf.cond import Cond
from vf import layouts
from vf.refmodels import obs_frame_full, obs_container

CONDS = {}
ASSUMPTIONS = ['array buffers, views and the writeable flag follow the NumPy rules encoded in vf/npmodel/array.py (validated against NumPy by selftest and traces)']
OUTSIDE = ('freeze sites not reachable from the operations listed; display, via_str/via_dt, pandas/arrow/msgpack converters, I/O constructors; '
           '"any sequence of calls" is covered as one arbitrary call from a constructed state plus snapshot invariance, not as explored sequences')
TRACES_QUICK = 16


def _add(c):
    CONDS[c.name] = c
    return c


def is_array(env, x):
    return isinstance(x, env.xp.ndarray)


def arrays_of(env, x, depth=0):
    """All arrays reachable from a container through its storage attributes."""
    sf = env.sf
    out = []
    if is_array(env, x):
        return [x]
    from static_frame.core.type_blocks import TypeBlocks
    from static_frame.core.index_base import IndexBase
    if isinstance(x, TypeBlocks):
        out += list(x._blocks)
        out.append(x.values)
    elif isinstance(x, sf.Frame):
        out += arrays_of(env, x._blocks) + arrays_of(env, x._index) + arrays_of(env, x._columns)
        if x.shape[0] and x.shape[1]:
            out.append(x.values)
    elif isinstance(x, sf.Series):
        out += [x.values] + arrays_of(env, x._index)
    elif isinstance(x, sf.IndexHierarchy):
        out += [x.values]
    elif isinstance(x, IndexBase):
        out += [x.values, x.positions]
    elif isinstance(x, (tuple, list)) and depth < 2:
        for y in x:
            out += arrays_of(env, y, depth + 1)
    return out


def all_readonly(env, x):
    return all(a.flags.writeable is False or a.flags.writeable == False for a in arrays_of(env, x))  # noqa: E712


def snap(env, x):
    sf = env.sf
    if isinstance(x, sf.Frame):
        return obs_frame_full(env, x)
    return obs_container(env, x)


# ---------------------------------------------------------------- caller-supplied arrays

def mk_input_alias(kind, tier='quick', readonly_view=False):
    # readonly_view: the caller passes a READ-ONLY VIEW of a buffer it can still write (finding F17): isolated in its own condition
    def body(env, w0, w1, view0, pos, val):
        sf = env.sf
        from static_frame.core.type_blocks import TypeBlocks
        xp = env.xp
        # two caller arrays; the first may be a VIEW of a larger caller-held buffer
        base = env.array([50, 51, 52, 53, 54, 55], 'int64', writeable=True)
        a0 = base[1:4] if view0 else env.array([51, 52, 53], 'int64', writeable=True)
        a1 = env.array([[1, 2], [3, 4], [5, 6]], 'int64', writeable=True)
        a0.flags.writeable = w0
        a1.flags.writeable = w1
        if kind == 'type_blocks':
            c = TypeBlocks.from_blocks((a0, a1))
        elif kind == 'frame':
            c = sf.Frame(a1, index=a0)
        elif kind == 'series':
            c = sf.Series(a0, index=(7, 8, 9))
        elif kind == 'index':
            c = sf.Index(a0)
        elif kind == 'frame_items':
            c = sf.Frame.from_items((('x', a0), ('y', a1[:, 0])))
        elif kind == 'frame_go_setitem':
            c = sf.FrameGO(a1)
            c['z'] = a0
        else:
            raise AssertionError(kind)
        before = snap(env, c) if kind != 'type_blocks' else env.obs(c.values.tolist())
        ro = all_readonly(env, c)
        # the caller now writes wherever NumPy lets it
        p = None
        for k in range(3):
            if pos == k:
                p = k
        wrote = []
        for arr, target in ((a0, p), (base, p + 1), (a1, (p, 0))):
            try:
                arr[target] = val
                wrote.append(True)
            except ValueError:
                wrote.append(False)
        after = snap(env, c) if kind != 'type_blocks' else env.obs(c.values.tolist())
        return [ro, after, wrote[1]], [True, before, True]
    return Cond(f'input_arrays_{kind}' + ('_readonly_view' if readonly_view else ''), [('w0', 'bool'), ('w1', 'bool'), ('view0', 'bool'), ('pos', 'int'), ('val', 'int')], body,
            ranges={'pos': (0, 2)}, pre=(['view0 and not w0'] if readonly_view else ['not (view0 and not w0)']),
            functions=['immutable_filter'],
            bounds='two caller-held int64 arrays (1-D of 3, possibly a view of a larger buffer, and 2-D 3x2); writeable flags and view status symbolic; caller then writes an UNBOUNDED symbolic value at a symbolic position through every handle it holds',
            route=f'{kind} built from caller arrays: container arrays read-only, later caller writes invisible', tier=tier)


for _k in ('type_blocks', 'frame', 'series', 'index', 'frame_items', 'frame_go_setitem'):
    _add(mk_input_alias(_k))
_add(mk_input_alias('series', readonly_view=True))


# ---------------------------------------------------------------- results of operations are read-only, source unchanged

def mk_frame(env, layout, float_col=False):
    sf = env.sf
    from static_frame.core.type_blocks import TypeBlocks
    ncols = sum(w for _, w in layout)
    rows = [[100 * (r + 1) + c for c in range(ncols)] for r in range(3)]
    cols = [[rows[r][c] for r in range(3)] for c in range(ncols)]
    tb = TypeBlocks.from_blocks(layouts.build_blocks(env, cols, 'int64', layout))
    return sf.Frame(tb, index=[10, 11, 12], columns=[chr(97 + c) for c in range(ncols)], name='nm')


OPS = {
    'iloc_int_slice': lambda env, f, a: f.iloc[a['k'], 1:],
    'iloc_slice_list': lambda env, f, a: f.iloc[a['k']:, [2, 0]],
    'getitem_col': lambda env, f, a: f[['c', 'a']],
    'assign_elem': lambda env, f, a: f.assign.iloc[a['k'], 1](a['v']),
    'assign_array': lambda env, f, a: f.assign['b'](env.array([a['v'], 1, 2], 'int64', writeable=True)),
    'drop_col': lambda env, f, a: f.drop.iloc[None, a['k']],
    'mask': lambda env, f, a: f.mask.iloc[a['k']],
    'astype': lambda env, f, a: f.astype['b'](float),
    'shift': lambda env, f, a: f.shift(a['k'], fill_value=a['v']),
    'roll': lambda env, f, a: f.roll(a['k'], 1),
    'transpose': lambda env, f, a: f.transpose(),
    'add_scalar': lambda env, f, a: f + a['v'],
    'compare': lambda env, f, a: f < a['v'],
    'neg': lambda env, f, a: -f,
    'isna': lambda env, f, a: f.isna(),
    'fillna': lambda env, f, a: f.fillna(a['v']),
    'fillna_forward': lambda env, f, a: f.fillna_forward(),
    'sort_values': lambda env, f, a: f.sort_values('b', ascending=False),
    'sort_index': lambda env, f, a: f.sort_index(ascending=False),
    'reindex': lambda env, f, a: f.reindex(index=(12, 10, 99), fill_value=a['v']),
    'relabel': lambda env, f, a: f.relabel(index=lambda x: x + 1),
    'consolidate': lambda env, f, a: f._blocks.consolidate(),
    'values': lambda env, f, a: f.values,
    'iter_array': lambda env, f, a: tuple(f.iter_array(axis=a['k'] % 2)),
    'iter_series': lambda env, f, a: tuple(f.iter_series(axis=a['k'] % 2)),
    'column_series': lambda env, f, a: f['b'],
    'row_series': lambda env, f, a: f.iloc[a['k']],
    'index_values': lambda env, f, a: (f.index.values, f.columns.values, f.index.positions),
    'to_frame_go': lambda env, f, a: f.to_frame_go(),
    'sum_axis': lambda env, f, a: f.sum(axis=a['k'] % 2),
    'cumsum': lambda env, f, a: f.cumsum(),
    'dropna': lambda env, f, a: f.dropna(),
    'set_index': lambda env, f, a: f.set_index('a', drop=True),
    'head_tail': lambda env, f, a: (f.head(2), f.tail(1)),
    'insert_after': lambda env, f, a: f.insert_after('a', env.sf.Series(env.array([a['v'], 2, 3], 'int64', writeable=True), index=(10, 11, 12), name='z')),
    'failing_loc': lambda env, f, a: f.loc[a['v'] * 0 + 999],
    'failing_assign_shape': lambda env, f, a: f.assign['b'](env.array([1, 2], 'int64')),
}


def mk_op(opname, layout, tier='quick'):
    def body(env, k, v):
        f = mk_frame(env, layout)
        before = snap(env, f)
        for i in range(-1, 3):
            if k == i:
                k = i
        try:
            r = OPS[opname](env, f, dict(k=k, v=v))
            ro = all_readonly(env, r)
            outcome = 'ok'
        except Exception as e:  # noqa: BLE001
            ro = True
            outcome = 'raised'
        after = snap(env, f)
        src_ro = all_readonly(env, f)
        return [ro, src_ro, after], [True, True, before]
    return Cond(f'op_{opname}_{layouts.name(layout)}', [('k', 'int'), ('v', 'int')], body, ranges={'k': (-1, 2)},
            functions=[],
            bounds=f'3x3 int64 frame, layout {layout}; positional argument k symbolic in -1..2, element argument v an UNBOUNDED symbolic int',
            route=f'Frame operation {opname}: all result arrays read-only, source snapshot and flags unchanged (also when the call raises)', tier=tier, timeout=150)


LQ = ((2, 2), (1, 1))
for _o in OPS:
    _add(mk_op(_o, LQ))
for _o in OPS:
    for _lay in (((1, 1), (1, 1), (1, 1)), ((2, 3),), ((1, 1), (2, 2))):
        _add(mk_op(_o, _lay, tier='thorough'))


# ---------------------------------------------------------------- deepcopy / pickle round trips

def body_copy(env, v, how):
    sf = env.sf
    f = mk_frame(env, LQ).assign.iloc[0, 0](v)
    s = f['b']
    idx = f.index
    out, exp = [], []
    for x in (f, s, idx):
        y = copy.deepcopy(x) if how else copy.copy(x)
        out.append([snap(env, y), all_readonly(env, y), all_readonly(env, x)])
        exp.append([snap(env, x), True, True])
    return out, exp


_add(Cond('deepcopy_copy', [('v', 'int'), ('how', 'bool')], body_copy,
        functions=['array_deepcopy'],
        bounds='Frame / Series / Index with one UNBOUNDED symbolic cell; copy.deepcopy and copy.copy (symbolic choice)',
        route='copy.deepcopy / copy.copy: equal content, every array read-only', timeout=200))


def body_pickle(env, k):
    """Pickle is C: the containers are concrete here; the state comes back with fresh WRITEABLE arrays
    (NumPy does not pickle the flag) and the real __setstate__ methods must freeze them again."""
    sf = env.sf
    f = mk_frame(env, LQ)
    kinds = [lambda: f, lambda: f['b'], lambda: f.index, lambda: sf.IndexGO((1, 2, 3)),
             lambda: sf.IndexHierarchy.from_labels([(1, 2), (1, 3)]), lambda: f.to_frame_go(), lambda: sf.Series(env.array([1, 2], 'int64'), index=sf.IndexHierarchy.from_labels([(1, 2), (1, 3)]))]
    x = None
    for i, mk_ in enumerate(kinds):
        if k == i:
            x = mk_()
    y = pickle.loads(pickle.dumps(x))
    return [snap(env, y), all_readonly(env, y), all_readonly(env, x)], [snap(env, x), True, True]


_add(Cond('pickle_roundtrip', [('k', 'int')], body_pickle, ranges={'k': (0, 6)},
        functions=['Index.__setstate__', 'TypeBlocks.__setstate__'],
        bounds='Frame / Series / Index / IndexGO / IndexHierarchy / FrameGO / hierarchical Series (container kind chosen by a symbolic index), concrete cells',
        route='pickle.loads(pickle.dumps(x)): equal content and every array read-only again', timeout=200))


# ---------------------------------------------------------------- a static container made from a grow-only one never follows its later growth

def _conc(v, lo, hi):
    for k in range(lo, hi + 1):
        if v == k:
            return k
    raise AssertionError('out of range')


def body_static_from_go(env, a, kind):
    sf = env.sf
    from vf import rt
    a, kind = _conc(a, 9, 21), _conc(kind, 0, 9)

    def probe(ix):
        try:
            pos = env.obs(ix.loc_to_iloc(a))
        except KeyError:
            pos = 'KeyError'
        return [env.obs(list(ix)), len(ix), bool(a in ix), pos, env.obs(ix.values.tolist()), env.obs(ix.positions.tolist())]

    def run():
        go = sf.IndexGO([10, 20])
        fgo = sf.FrameGO(env.array([[1, 2], [3, 4]], 'int64'), index=(100, 101), columns=go)
        if kind == 0:
            holder = sf.Index(go)
            static = holder
        elif kind == 1:
            holder = fgo.to_frame()
            static = holder.columns
        elif kind == 2:
            holder = sf.Frame(fgo)
            static = holder.columns
        elif kind == 3:
            holder = sf.Series(env.array([1, 2], 'int64'), index=go)
            static = holder.index
        elif kind == 4:
            holder = fgo.iloc[0]          # a row Series: its index is the (static) image of the grow-only columns
            static = holder.index
        elif kind == 5:
            holder = sf.Frame(env.array([[1, 2], [3, 4]], 'int64'), index=(100, 101), columns=go)
            static = holder.columns
        elif kind == 6:
            holder = sf.Series(env.array([1, 2], 'int64'), index=(10, 20)).relabel(go)
            static = holder.index
        elif kind == 7:
            holder = sf.Frame(env.array([[1, 2], [3, 4]], 'int64'), index=(100, 101), columns=(10, 20)).relabel(columns=go)
            static = holder.columns
        elif kind == 8:
            holder = sf.Series(env.array([1, 2], 'int64'), index=(10, 20)).reindex(go)
            static = holder.index
        else:
            holder = sf.Frame.from_concat((fgo, sf.Frame(env.array([[5], [6]], 'int64'), index=(100, 101), columns=(30,))), axis=1)
            static = holder.columns
            exp_labels = [10, 20, 30]
        before = probe(static)
        hsnap = snap(env, holder)
        held = a in (10, 20)
        grew = []
        for grow in (lambda: go.append(a), lambda: fgo.__setitem__(a, 7)):
            try:
                grow()
                grew.append(True)
            except Exception:  # noqa: BLE001
                grew.append(False)
        after = probe(static)
        labs = [10, 20, 30] if kind == 9 else [10, 20]
        held = a in labs
        exp_probe = [labs, len(labs), held, (labs.index(a) if held else 'KeyError'), labs, list(range(len(labs)))]
        return [before, after, snap(env, holder), all_readonly(env, holder)], [exp_probe, exp_probe, hsnap, True]
    return rt.untraced(run)


_add(Cond('static_from_grow_only_then_growth', [('a', 'int'), ('kind', 'int')], body_static_from_go, ranges={'a': (9, 21), 'kind': (0, 9)},
        functions=['Index.__init__', '_IndexGOMixin.append'],
        bounds='IndexGO [10, 20] / FrameGO 2x2 over it; static image taken by Index(go) / FrameGO.to_frame / Frame(fgo) / Series(index=go) / row selection / Frame(columns=go) / Series.relabel(go) / Frame.relabel(columns=go) / Series.reindex(go) / Frame.from_concat with the FrameGO (symbolic choice); then the source grows by a label symbolic in 9..21',
        route='static Index / Frame / Series made from a grow-only source: labels, membership, loc_to_iloc, positions and cells are the same before and after the source grows', timeout=240))


# ---------------------------------------------------------------- the shared positions buffer: one step from an arbitrary allocator state

def body_positions_allocator(env, s0, n1, n2, pos):
    """PositionsAllocator hands every Index a read-only view of ONE class-level arange; the buffer is re-allocated when a
    larger size is asked for.  The class state is made arbitrary (initial capacity s0), then two requests of arbitrary
    sizes are served: every view handed out (before and after a re-allocation) is read-only and holds 0..n-1, and a
    caller write through any of them is refused."""
    from vf import rt
    from static_frame.core.util import PositionsAllocator as PA
    s0, n1, n2, pos = _conc(s0, 1, 3), _conc(n1, 0, 5), _conc(n2, 0, 5), _conc(pos, 0, 2)
    val = 99

    def run():
        xp = env.xp
        saved = (PA._size, PA._array)
        try:
            arr = xp.arange(s0, dtype='int64')
            arr.flags.writeable = False
            PA._size, PA._array = s0, arr
            v1 = PA.get(n1)
            v2 = PA.get(n2)
            out, exp = [], []
            for v, n in ((v1, n1), (v2, n2)):
                wrote = False
                if pos < n:
                    try:
                        v[pos] = val
                        wrote = True
                    except ValueError:
                        pass
                out.append([env.obs(v.tolist()), v.flags.writeable is False or v.flags.writeable == False, wrote])  # noqa: E712
                exp.append([list(range(n)), True, False])
            # a later, unrelated Index of that size sees clean positions
            v3 = PA.get(max(n1, n2))
            out.append(env.obs(v3.tolist()))
            exp.append(list(range(max(n1, n2))))
            return out, exp
        finally:
            PA._size, PA._array = saved
    return rt.untraced(run)


_add(Cond('positions_allocator_step', [('s0', 'int'), ('n1', 'int'), ('n2', 'int'), ('pos', 'int')], body_positions_allocator,
        ranges={'s0': (1, 3), 'n1': (0, 5), 'n2': (0, 5), 'pos': (0, 2)},
        functions=['PositionsAllocator.get'],
        bounds='allocator capacity symbolic in 1..3 (the real initial capacity is 1024: the re-allocation branch is the same code), two requests of symbolic sizes 0..5, caller write at a symbolic position 0..2 through each view',
        route='PositionsAllocator.get (Index.positions): views are read-only and hold 0..n-1 before and after a re-allocation', timeout=240))



def body_static_hierarchy_from_go(env, a, kind):
    """Static HIERARCHICAL indices assembled from grow-only parts."""
    sf = env.sf
    from vf import rt
    a, kind = _conc(a, 9, 21), _conc(kind, 0, 4)

    def run():
        go = sf.IndexGO([10, 20])
        fgo = sf.FrameGO(env.array([[1, 2], [3, 4]], 'int64'), index=(100, 101), columns=go)
        fst = sf.Frame(env.array([[5, 6], [7, 8]], 'int64'), index=(100, 101), columns=(10, 20))
        if kind == 0:
            holder = sf.IndexHierarchy.from_index_items((('x', go), ('y', sf.Index((10, 20)))))
            static = holder
        elif kind == 1:
            holder = sf.Frame.from_concat_items((('x', fgo), ('y', fst)), axis=1)
            static = holder.columns
        elif kind == 2:
            holder = sf.IndexHierarchy.from_product(('x', 'y'), go)
            static = holder
        elif kind == 3:
            hgo = sf.IndexHierarchyGO.from_product(('x', 'y'), (10, 20))
            holder = sf.IndexHierarchy(hgo)
            static = holder
            go = None
        else:
            hgo = sf.IndexHierarchyGO.from_product(('x', 'y'), (10, 20))
            holder = sf.Series(env.array([1, 2, 3, 4], 'int64'), index=hgo)
            static = holder.index
            go = None
        tuples = [['x', 10], ['x', 20], ['y', 10], ['y', 20]]

        def probe(ix):
            try:
                pos = env.obs(ix.loc_to_iloc(('x', a)))
            except KeyError:
                pos = 'KeyError'
            return [env.obs([list(t) for t in ix]), len(ix), bool(('x', a) in ix), bool(('y', a) in ix), pos, env.obs(ix.values.tolist()), list(ix.shape)]
        before = probe(static)
        hsnap = snap(env, holder) if not isinstance(holder, sf.IndexHierarchy) else None
        for grow in ((lambda: go.append(a)) if go is not None else (lambda: hgo.append(('y', a))), lambda: fgo.__setitem__(a, 7)):
            try:
                grow()
            except Exception:  # noqa: BLE001
                pass
        after = probe(static)
        held = a in (10, 20)
        exp_probe = [tuples, 4, held, held, ([10, 20].index(a) if held else 'KeyError'), tuples, [4, 2]]
        return [before, after, (snap(env, holder) if hsnap is not None else None), all_readonly(env, holder)], [exp_probe, exp_probe, hsnap, True]
    return rt.untraced(run)


_add(Cond('static_hierarchy_from_grow_only_then_growth', [('a', 'int'), ('kind', 'int')], body_static_hierarchy_from_go, ranges={'a': (9, 21), 'kind': (0, 4)},
        functions=['IndexHierarchy.from_index_items', 'IndexHierarchy.__init__'],
        bounds='static IndexHierarchy assembled from grow-only parts: from_index_items with an IndexGO / Frame.from_concat_items(axis=1) with a FrameGO / from_product over an IndexGO / IndexHierarchy(IndexHierarchyGO) / Series(index=IndexHierarchyGO) (symbolic choice); then the grow-only source gains a label symbolic in 9..21',
        route='static hierarchical index made from grow-only parts: tuples, len, membership, loc_to_iloc, values and shape are the same before and after the source grows', timeout=300))
