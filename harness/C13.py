"""C13: grouping partitions the container; windows cover it as specified.

Windows: the real axis_window_items (through Series.iter_window_items / Frame.iter_window_items) with
size / step fixed per condition and start_shift, label_shift, size_increment, window_sized symbolic.
Groups: the real Series._axis_group_items, Frame._axis_group_loc_items (sort-and-slice path and
unique/mask path), TypeBlocks.group, array_to_groups_and_locations, Frame._axis_group_labels_items,
IterNodeDelegate.apply.  Key values are symbolic over a small domain so that the solver chooses
between one group ... all-distinct; payload cells are concrete and distinct."""
from vf.cond import Cond
from vf import layouts

CONDS = {}
ASSUMPTIONS = ['group keys are ints; payload concrete; NumPy sort contract: stable kinds keep ties, other kinds may not (tie tape)']
OUTSIDE = ('object/mixed-type keys that make np.unique raise (astype(str) fallback is C formatting); more than 4 rows; window parameters beyond |shift| <= 3, size <= 4, step <= 3')
TRACES_QUICK = 24


def _add(c):
    CONDS[c.name] = c
    return c


def concretize(v, lo, hi):
    for k in range(lo, hi + 1):
        if v == k:
            return k
    raise AssertionError('out of range')


# ---------------------------------------------------------------- windows

def ref_windows(n, size, step, window_sized, label_shift, start_shift, size_increment):
    """Reference from the documented contract: window t starts at start_shift + t*step, has
    size + t*size_increment elements (clipped to the data), is labelled by the element at
    (right edge + label_shift); windows whose label position is outside the data, or (window_sized)
    that are not full, are skipped.  Windows are collected while their left edge lies within the
    (start-shift extended) data and at most len+|negative start_shift|+1 windows are visited."""
    out = []
    max_count = n if start_shift >= 0 else n + abs(start_shift)
    left = start_shift
    t = 0
    while True:
        right = left + size - 1
        lo = left if left > 0 else 0
        hi = right if right > -1 else -1
        pos = [i for i in range(n) if lo <= i <= hi]
        li = right + label_shift
        valid = 0 <= li < n
        if valid and window_sized and len(pos) != size:
            valid = False
        if valid:
            out.append([li, pos])
        left += step
        size += size_increment
        t += 1
        if t > max_count or left > max_count - 1 or size < 0:
            break
    return out


def mk_window(n, size, step, kind='series', tier='quick'):
    R = 3 if tier == 'quick' else 4
    def body(env, window_sized, label_shift, start_shift, size_increment):
        sf = env.sf
        from vf import rt
        # window parameters are loop bounds and strides: split them by value once, up front
        label_shift = concretize(label_shift, -R, R)
        start_shift = concretize(start_shift, -R, R)
        size_increment = concretize(size_increment, 0, 1)
        window_sized = bool(window_sized)
        def run():
            vals = [10 + i for i in range(n)]
            labels = [100 + i for i in range(n)]
            if kind == 'series':
                src = rt.concrete(('C13s', env.model, n), lambda: sf.Series(env.array(vals, 'int64'), index=labels))
                it = src.iter_window_items(size=size, step=step, window_sized=window_sized, label_shift=label_shift,
                        start_shift=start_shift, size_increment=size_increment)
                got = [[env.obs(l), env.obs(list(w.index.values)), env.obs(w.values.tolist())] for l, w in it]
                exp = [[labels[li], [labels[i] for i in pos], [vals[i] for i in pos]]
                       for li, pos in ref_windows(n, size, step, window_sized, label_shift, start_shift, size_increment)]
            else:
                axis = 0 if kind == 'frame0' else 1
                src = rt.concrete(('C13f', env.model, n, axis), lambda: (
                    sf.Frame.from_items((('a', env.array(vals, 'int64')), ('b', env.array([v + 1000 for v in vals], 'int64'))), index=labels)
                    if axis == 0 else
                    sf.Frame.from_items(((labels[i], env.array([vals[i], vals[i] + 1000], 'int64')) for i in range(n)), index=('r0', 'r1'))))
                it = src.iter_window_items(size=size, step=step, axis=axis, window_sized=window_sized, label_shift=label_shift,
                        start_shift=start_shift, size_increment=size_increment)
                if axis == 0:
                    got = [[env.obs(l), env.obs(list(w.index.values)), env.obs(w.values.tolist())] for l, w in it]
                    exp = [[labels[li], [labels[i] for i in pos], [[vals[i], vals[i] + 1000] for i in pos]]
                           for li, pos in ref_windows(n, size, step, window_sized, label_shift, start_shift, size_increment)]
                else:
                    got = [[env.obs(l), env.obs(list(w.columns.values)), env.obs(w.values.tolist())] for l, w in it]
                    exp = [[labels[li], [labels[i] for i in pos], ([[vals[i] for i in pos], [vals[i] + 1000 for i in pos]] if pos else [[], []])]
                           for li, pos in ref_windows(n, size, step, window_sized, label_shift, start_shift, size_increment)]
            return got, exp
        # every input is concrete from here on: run the real code outside the tracer (fast)
        got, exp = rt.untraced(run)
        return got, exp
    return Cond(f'window_{kind}_n{n}_size{size}_step{step}',
            [('window_sized', 'bool'), ('label_shift', 'int'), ('start_shift', 'int'), ('size_increment', 'int')], body,
            ranges={'label_shift': (-R, R), 'start_shift': (-R, R), 'size_increment': (0, 1)},
            functions=['axis_window_items'],
            bounds=f'{kind} of {n}; size = {size}, step = {step}; window_sized, label_shift in -{R}..{R}, start_shift in -{R}..{R}, size_increment in 0..1 symbolic (split by value up front: they are loop bounds)',
            route=f'{kind}.iter_window_items(...): (anchor label, window labels, window cells) for every window', tier=tier, timeout=240 if tier == 'quick' else 1200)


for _size, _step in ((1, 1), (2, 1), (3, 2), (2, 3), (2, 0), (4, 1)):
    _add(mk_window(4, _size, _step))
_add(mk_window(4, 2, 1, 'frame0'))
_add(mk_window(4, 2, 2, 'frame1'))
for _size in (1, 2, 3, 4, 5):
    for _step in (0, 1, 2, 3):
        for _kind in ('series', 'frame0', 'frame1'):
            c = mk_window(6, _size, _step, _kind, tier='thorough')
            if c.name not in CONDS:
                _add(c)


# ---------------------------------------------------------------- groups

def ref_groups(keys):
    """-> list of (key, positions) in ascending key order; positions keep input order."""
    out = []
    for k in sorted(set(keys)):
        out.append([k, [i for i, x in enumerate(keys) if x == k]])
    return out


def install_tape(env, kw, n):
    if env.model:
        env.nondet.install([kw[f'tape{i}'] for i in range(n)])


def mk_series_group(n, tier='quick'):
    def body(env, **kw):
        sf = env.sf
        from vf import rt
        keys = [concretize(kw[f'k{i}'], 0, 2) for i in range(n)]
        tape = [bool(kw[f'tape{i}']) for i in range(n)]

        def run():
            if env.model:
                env.nondet.install(tape)
            labels = [100 + i for i in range(n)]
            s = sf.Series(env.array(keys, 'int64'), index=labels)
            got = [[env.obs(g), env.obs(list(sub.index.values)), env.obs(sub.values.tolist())] for g, sub in s.iter_group_items()]
            exp = [[k, [labels[i] for i in pos], [keys[i] for i in pos]] for k, pos in ref_groups(keys)]
            ap = s.iter_group().apply(lambda x: len(x))
            got.append([env.obs(list(ap.index.values)), env.obs(ap.values.tolist())])
            exp.append([[k for k, _ in ref_groups(keys)], [len(p) for _, p in ref_groups(keys)]])
            return got, exp
        return rt.untraced(run)   # keys and tape are concrete from here on
    return Cond(f'series_group_n{n}', [(f'k{i}', 'int') for i in range(n)], body, tape=n, ranges={f'k{i}': (0, 2) for i in range(n)},
            functions=['Series._axis_group_items', 'array_to_groups_and_locations'],
            bounds=f'Series of {n} keys symbolic in 0..2 (one group ... all distinct); tie tape for non-stable sorts',
            route='Series.iter_group_items(): partition, key constant per group, order and labels kept; iter_group().apply labelled by key', tier=tier, timeout=200)


_add(mk_series_group(3))
_add(mk_series_group(4, tier='thorough'))


def mk_frame_group(n, layout, axis, key_as_list, tier='quick'):
    def body(env, **kw):
        sf = env.sf
        from static_frame.core.type_blocks import TypeBlocks
        from vf import rt
        keys = [concretize(kw[f'k{i}'], 0, 2) for i in range(n)]
        tape = [bool(kw[f'tape{i}']) for i in range(n)]
        return rt.untraced(lambda: run(env, keys, tape))

    def run(env, keys, tape):
        sf = env.sf
        from static_frame.core.type_blocks import TypeBlocks
        if env.model:
            env.nondet.install(tape)
        if axis == 0:
            # n rows, 3 columns: payload, payload, key
            rows = [[1000 * (r + 1), 1000 * (r + 1) + 1, keys[r]] for r in range(n)]
            cols = [[rows[r][c] for r in range(n)] for c in range(3)]
            tb = TypeBlocks.from_blocks(layouts.build_blocks(env, cols, 'int64', layout))
            labels = [100 + r for r in range(n)]
            f = sf.Frame(tb, index=labels, columns=['a', 'b', 'k'])
            it = f.iter_group_items(['k'] if key_as_list else 'k')
            got = [[env.obs(g), env.obs(list(sub.index.values)), env.obs(list(sub.columns.values)), env.obs(sub.values.tolist())] for g, sub in it]
            exp = [[([k] if key_as_list else k), [labels[i] for i in pos], ['a', 'b', 'k'], [rows[i] for i in pos]] for k, pos in ref_groups(keys)]
        else:
            # 3 rows (payload, payload, key row), n columns
            rows = [[1000 * (c + 1) for c in range(n)], [1000 * (c + 1) + 1 for c in range(n)], list(keys)]
            cols = [[rows[r][c] for r in range(3)] for c in range(n)]
            tb = TypeBlocks.from_blocks(layouts.build_blocks(env, cols, 'int64', layout))
            labels = [100 + c for c in range(n)]
            f = sf.Frame(tb, index=['a', 'b', 'k'], columns=labels)
            it = f.iter_group_items(['k'] if key_as_list else 'k', axis=1)
            got = [[env.obs(g), env.obs(list(sub.index.values)), env.obs(list(sub.columns.values)), env.obs(sub.values.tolist())] for g, sub in it]
            # (a single-row list key on axis 1 labels its groups with the bare key value: library convention)
            exp = [[k, ['a', 'b', 'k'], [labels[i] for i in pos], [[rows[r][i] for i in pos] for r in range(3)]] for k, pos in ref_groups(keys)]
        return got, exp
    return Cond(f'frame_group_axis{axis}_{"listkey" if key_as_list else "elemkey"}_n{n}_{layouts.name(layout)}', [(f'k{i}', 'int') for i in range(n)], body, tape=n,
            ranges={f'k{i}': (0, 2) for i in range(n)},
            functions=['Frame._axis_group_loc_items', 'Frame._axis_group_iloc_items' if key_as_list else 'Frame._axis_group_sort_items'],
            bounds=f'frame with {n} grouped {"rows" if axis == 0 else "columns"}, keys symbolic in 0..2, layout {layout}; ' + ('list key: unique/mask path (TypeBlocks.group)' if key_as_list else 'element key: sort-and-slice path') + '; tie tape for non-stable sorts',
            route='Frame.iter_group_items(key, axis): partition, constant key, order and labels kept', tier=tier, timeout=240)


_add(mk_frame_group(3, ((2, 2), (1, 1)), 0, False))
_add(mk_frame_group(3, ((2, 2), (1, 1)), 0, True))
_add(mk_frame_group(3, ((1, 1), (1, 1), (1, 1)), 0, False))
_add(mk_frame_group(3, ((2, 3),), 1, False))
_add(mk_frame_group(3, ((1, 1), (2, 2)), 1, True))
_add(mk_frame_group(4, ((2, 2), (1, 1)), 0, False, tier='thorough'))
_add(mk_frame_group(4, ((2, 2), (1, 1)), 0, True, tier='thorough'))


def body_group_labels(env, **kw):
    """Grouping by label depth on a hierarchical index."""
    sf = env.sf
    install_tape(env, kw, 3)
    outer = [0, 0, 1, 1]
    inner = [concretize(kw[f'i{j}'], 0, 1) for j in range(4)]
    tuples = list(zip(outer, inner))
    ih = sf.IndexHierarchy.from_labels(tuples)
    f = sf.Frame.from_items((('a', env.array([1, 2, 3, 4], 'int64')),), index=ih)
    got = [[env.obs(g), env.obs([tuple(t) for t in sub.index]), env.obs(sub.values.tolist())] for g, sub in f.iter_group_labels_items(1)]
    exp = [[k, [list(tuples[i]) for i in pos], [[i + 1] for i in pos]] for k, pos in ref_groups(inner)]
    return got, exp


_add(Cond('frame_group_labels_depth1', [(f'i{j}', 'int') for j in range(4)], body_group_labels, tape=3,
        ranges={f'i{j}': (0, 1) for j in range(4)}, pre=['i0 != i1', 'i2 != i3'],
        functions=['Frame._axis_group_labels_items', 'array_to_groups_and_locations'],
        bounds='4-row frame with a depth-2 index, inner labels symbolic in 0..1 (distinct within each outer label)',
        route='Frame.iter_group_labels_items(1)', timeout=240))


# ---------------------------------------------------------------- key KINDS symbolic, two key columns, every block layout

KEY_KINDS = (('int64', (5, 3)), ('<U1', ('b', 'a')), ('float64', (2.5, 0.5)), ('bool', (True, False)))


def _lays_for(kinds):
    out = []
    for lay in layouts.compositions(len(kinds)):
        j, ok = 0, True
        for nd, w in lay:
            if len(set(kinds[j:j + w])) > 1:
                ok = False
            j += w
        if ok:
            out.append(lay)
    return out


def body_group_kinds(env, kk, two, k0, k1, k2, **kw):
    from vf import rt
    kk, two = concretize(kk, 0, 3), bool(two)
    sel = [concretize(v, 0, 1) for v in (k0, k1, k2)]
    tape = [bool(kw[f'tape{i}']) for i in range(3)]

    def run():
        sf = env.sf
        from static_frame.core.type_blocks import TypeBlocks
        n = 3
        keyvals = [KEY_KINDS[kk][1][s] for s in sel]
        second = [7, 7, 8]                       # second key column (int): splits the last row off when used
        payload = [100, 101, 102]
        cols = [payload, keyvals, second]
        dts = ['int64', KEY_KINDS[kk][0], 'int64']
        kinds = [0, 10 + kk, 0]
        labels = [10, 11, 12]
        keys = [(keyvals[r], second[r]) for r in range(n)] if two else list(keyvals)
        order = []
        for k in keys:
            if k not in order:
                order.append(k)
        order = sorted(order)
        exp = [[(list(k) if two else k), [labels[i] for i in range(n) if keys[i] == k], [[payload[i], keyvals[i], second[i]] for i in range(n) if keys[i] == k]] for k in order]
        got = []
        for lay in _lays_for(kinds):
            if env.model:
                env.nondet.install(list(tape))
            tb = TypeBlocks.from_blocks(layouts.build_blocks_typed(env, cols, dts, lay))
            f = sf.Frame(tb, index=labels, columns=['p', 'k', 'j'])
            it = f.iter_group_items(['k', 'j'] if two else 'k')
            got.append([[env.obs(list(g) if two else g), env.obs(list(sub.index.values)), env.obs(sub.values.tolist())] for g, sub in it])
        return got, [exp] * len(got)
    return rt.untraced(run)


_add(Cond('frame_group_key_kinds_all_layouts', [('kk', 'int'), ('two', 'bool'), ('k0', 'int'), ('k1', 'int'), ('k2', 'int')], body_group_kinds, tape=3,
        ranges={'kk': (0, 3), 'k0': (0, 1), 'k1': (0, 1), 'k2': (0, 1)},
        functions=['Frame._axis_group_loc_items'],
        bounds='3-row frame (payload, key, second int key); the KIND of the key column symbolic over (int64, str, float64, bool), its values symbolic (two values per kind), one key column or the pair (symbolic); every block layout that can hold the kinds; tie tape for non-stable sorts',
        route='Frame.iter_group_items(key | [key, second]): partition, constant key (value and type), ascending key order, row order and whole rows kept', timeout=400))


# ---------------------------------------------------------------- every window INTERFACE form agrees (items / values / arrays / apply), mixed-kind frames

def body_window_forms(env, size, step, label_shift, start_shift, window_sized, axis_flag, form):
    from vf import rt
    size, step = concretize(size, 1, 3), concretize(step, 1, 2)
    label_shift, start_shift = concretize(label_shift, -1, 1), concretize(start_shift, -1, 1)
    window_sized, axis, form = bool(window_sized), (1 if axis_flag else 0), concretize(form, 0, 4)

    def run():
        sf = env.sf
        n = 4
        labels = [100 + i for i in range(n)]
        # mixed column kinds: windows along axis 0 cut ACROSS blocks of different dtype
        if axis == 0:
            f = sf.Frame.from_items((('a', env.array([10, 11, 12, 13], 'int64')), ('b', env.array([0.5, 1.5, 2.5, 3.5], 'float64')), ('c', env.array([True, False, True, False], 'bool'))), index=labels)
            line = lambda i: [10 + i, 0.5 + i, i % 2 == 0]     # noqa: E731
        else:
            f = sf.Frame.from_items(((labels[i], env.array([10 + i, 20 + i], 'int64')) for i in range(n)), index=('r0', 'r1'))
            line = lambda i: [10 + i, 20 + i]                   # noqa: E731
        kw = dict(size=size, step=step, axis=axis, window_sized=window_sized, label_shift=label_shift, start_shift=start_shift)
        ref = ref_windows(n, size, step, window_sized, label_shift, start_shift, 0)

        def cells(w):
            if isinstance(w, sf.Frame):
                rows = w.values.tolist()
                return env.obs(rows if axis == 0 else [[rows[r][c] for r in range(len(rows))] for c in range(w.shape[1])])
            a = w.tolist()
            if axis == 1:
                return env.obs([[a[r][c] for r in range(len(a))] for c in range(len(a[0]))] if (a and a[0]) else [])
            return env.obs(a)
        want_items = [[labels[li], [line(i) for i in pos]] for li, pos in ref]
        if form == 0:
            got = [[env.obs(l), cells(w)] for l, w in f.iter_window_items(**kw)]
            exp = want_items
        elif form == 1:
            got = [cells(w) for w in f.iter_window(**kw)]
            exp = [w for _, w in want_items]
        elif form == 2:
            got = [[env.obs(l), cells(w)] for l, w in f.iter_window_array_items(**kw)]
            exp = want_items
        elif form == 3:
            got = [cells(w) for w in f.iter_window_array(**kw)]
            exp = [w for _, w in want_items]
        else:
            r = f.iter_window_items(**kw).apply(lambda l, w: w.shape[axis])
            got = [env.obs(r.index.values.tolist()), env.obs(r.values.tolist())]
            exp = [[l for l, _ in want_items], [len(w) for _, w in want_items]]
        return got, exp
    return rt.untraced(run)


_add(Cond('window_interface_forms', [('size', 'int'), ('step', 'int'), ('label_shift', 'int'), ('start_shift', 'int'), ('window_sized', 'bool'), ('axis_flag', 'bool'), ('form', 'int')], body_window_forms,
        ranges={'size': (1, 3), 'step': (1, 2), 'label_shift': (-1, 1), 'start_shift': (-1, 1), 'form': (0, 4)},
        functions=['axis_window_items'],
        bounds='Frame of 4 lines (axis 0: int / float / bool columns; axis 1: int); size 1..3, step 1..2, label_shift and start_shift in -1..1, window_sized, axis and the interface form (iter_window_items / iter_window / iter_window_array_items / iter_window_array / apply) symbolic',
        route='every window interface form yields the same windows (anchor label, lines, cells with their types) as iter_window_items and the reference', timeout=400))


# ---------------------------------------------------------------- grouping by label depth (Series and Frame), and group interface forms

def body_group_forms(env, i0, i1, i2, i3, form, **kw):
    from vf import rt
    inner = [concretize(v, 0, 1) for v in (i0, i1, i2, i3)]
    form = concretize(form, 0, 5)
    tape = [bool(kw[f'tape{i}']) for i in range(3)]

    def run():
        sf = env.sf
        if env.model:
            env.nondet.install(list(tape))
        outer = [0, 0, 1, 1]
        tuples = list(zip(outer, inner))
        vals = [7, 8, 9, 10]
        groups_inner = ref_groups(inner)
        if form == 0:     # Series grouped by VALUE: items
            s = sf.Series(env.array(inner, 'int64'), index=[100, 101, 102, 103])
            got = [[env.obs(g), env.obs(sub.index.values.tolist())] for g, sub in s.iter_group_items()]
            exp = [[k, [100 + i for i in pos]] for k, pos in groups_inner]
        elif form == 1:   # Series grouped by a label depth
            ih = sf.IndexHierarchy.from_labels(tuples)
            s = sf.Series(env.array(vals, 'int64'), index=ih)
            got = [[env.obs(g), env.obs([list(t) for t in sub.index]), env.obs(sub.values.tolist())] for g, sub in s.iter_group_labels_items(1)]
            exp = [[k, [list(tuples[i]) for i in pos], [vals[i] for i in pos]] for k, pos in groups_inner]
        elif form == 2:   # Frame grouped by two label depths
            ih = sf.IndexHierarchy.from_labels(tuples)
            f = sf.Frame.from_items((('a', env.array(vals, 'int64')),), index=ih)
            got = [[env.obs(list(g)), env.obs(sub.values.tolist())] for g, sub in f.iter_group_labels_items([0, 1])]
            order = sorted(set(tuples))
            exp = [[list(k), [[vals[i]] for i in range(4) if tuples[i] == k]] for k in order]
        elif form == 3:   # grow-only frame: groups are grow-only frames of the same rows
            f = sf.FrameGO.from_items((('k', env.array(inner, 'int64')), ('v', env.array(vals, 'int64'))), index=[100, 101, 102, 103])
            got = [[env.obs(g), env.obs(sub.values.tolist())] for g, sub in f.iter_group_items('k')]
            exp = [[k, [[inner[i], vals[i]] for i in pos]] for k, pos in groups_inner]
        elif form == 4:   # values-only form and apply
            f = sf.Frame.from_items((('k', env.array(inner, 'int64')), ('v', env.array(vals, 'int64'))), index=[100, 101, 102, 103])
            r = f.iter_group('k').apply(lambda g: g['v'].sum())
            got = [env.obs(r.index.values.tolist()), env.obs(r.values.tolist()), [env.obs(sub.index.values.tolist()) for sub in f.iter_group('k')]]
            exp = [[k for k, _ in groups_inner], [sum(vals[i] for i in pos) for _, pos in groups_inner], [[100 + i for i in pos] for _, pos in groups_inner]]
        else:             # groups along axis 1 of a mixed-kind frame (the key ROW is object dtype)
            f = sf.Frame.from_items(((100 + c, env.array([inner[c], 0.5 + c], 'float64')) for c in range(4)), index=('k', 'v'))
            got = [[env.obs(g), env.obs(sub.columns.values.tolist()), env.obs(sub.values.tolist())] for g, sub in f.iter_group_items('k', axis=1)]
            exp = [[k, [100 + i for i in pos], [[inner[i] for i in pos], [0.5 + i for i in pos]]] for k, pos in groups_inner]
        return got, exp
    return rt.untraced(run)


_add(Cond('group_interface_forms', [('i0', 'int'), ('i1', 'int'), ('i2', 'int'), ('i3', 'int'), ('form', 'int')], body_group_forms, tape=3,
        ranges={'i0': (0, 1), 'i1': (0, 1), 'i2': (0, 1), 'i3': (0, 1), 'form': (0, 5)}, pre=['form not in (1, 2) or (i0 != i1 and i2 != i3)'],
        functions=['array_to_groups_and_locations'],
        bounds='4 keys symbolic in 0..1; grouping form symbolic: Series by value / Series by label depth / Frame by two label depths / FrameGO by column / iter_group + apply / axis 1 of a float frame; tie tape',
        route='every grouping interface: partition with constant key, ascending key order, rows (columns) and their order kept', timeout=400))


M = 'NaN'


# ---------------------------------------------------------------- missing group keys (NaN): never merged into a finite group

def body_group_nan_keys(env, k0, k1, k2, k3, as_list, axis_flag, **kw):
    from vf import rt
    sel = [concretize(v, 0, 2) for v in (k0, k1, k2, k3)]
    as_list, axis = bool(as_list), (1 if axis_flag else 0)
    tape = [bool(kw[f'tape{i}']) for i in range(2)] + [False, False]

    def run():
        sf = env.sf
        if env.model:
            env.nondet.install(list(tape))
        table = (env.nan, 0.5, 2.5)
        keys = [table[s] for s in sel]
        ref_keys = [(M if s == 0 else table[s]) for s in sel]
        labels = [100, 101, 102, 103]
        if axis == 0:
            f = sf.Frame.from_items((('k', env.array(keys, 'float64')), ('v', env.array([1.0, 2.0, 3.0, 4.0], 'float64'))), index=labels)
            it = f.iter_group_items(['k'] if as_list else 'k')
            members = lambda sub: env.obs(sub.index.values.tolist())      # noqa: E731
        else:
            f = sf.Frame.from_items(((labels[c], env.array([keys[c], 1.0 + c], 'float64')) for c in range(4)), index=('k', 'v'))
            it = f.iter_group_items(['k'] if as_list else 'k', axis=1)
            members = lambda sub: env.obs(sub.columns.values.tolist())    # noqa: E731
        finite, nan_members, nan_labelled = [], [], True
        for g, sub in it:
            gv = g[0] if isinstance(g, tuple) else g
            gv = env.obs(gv)
            if gv == M:
                nan_members += members(sub)
            else:
                finite.append([gv, members(sub)])
        exp_finite = [[k, [labels[i] for i in range(4) if ref_keys[i] == k]] for k in sorted(set(k for k in ref_keys if k != M))]
        exp_nan = [labels[i] for i in range(4) if ref_keys[i] == M]
        return [finite, sorted(nan_members)], [exp_finite, exp_nan]
    return rt.untraced(run)


_add(Cond('frame_group_nan_keys', [('k0', 'int'), ('k1', 'int'), ('k2', 'int'), ('k3', 'int'), ('as_list', 'bool'), ('axis_flag', 'bool')], body_group_nan_keys, tape=2,
        ranges={'k0': (0, 2), 'k1': (0, 2), 'k2': (0, 2), 'k3': (0, 2)},
        functions=['Frame._axis_group_loc_items'],
        bounds='4 grouped lines with float keys symbolic over (NaN, 0.5, 2.5); element key (sort-and-slice path) or list key (unique/mask path), both axes (symbolic); tie tape',
        route='Frame.iter_group_items with missing keys: the finite keys partition exactly the lines that hold them (ascending, order kept); lines with a missing key appear only in groups labelled NaN', timeout=400))
