"""C03: block-manager transparency and structural coherence of Frame.

Differential INSIDE the solver: the same symbolic cells are packed into block layout L and into the
canonical one-1-D-block-per-column layout; the same operation with the same symbolic arguments is
applied to both; the results must agree on shape, per-column dtype kind, every cell and the class of
any raised exception, and (for operations with a simple meaning) with a list reference.
Real functions executed: TypeBlocks.from_blocks / values / _extract / _extract_array / axis_values /
element_items / transpose / _shift_blocks / _ufunc_binary_operator / ufunc_axis_skipna / _drop_blocks /
_astype_blocks / consolidate / equals, Frame.__init__ shape checks, Frame.iter_array / iter_element."""
from vf.cond import Cond
from vf import layouts

CONDS = {}
ASSUMPTIONS = ['cells are unbounded symbolic ints in int64 columns (plus one bool-column condition)']
OUTSIDE = ('Frame-level methods not listed; dtype kinds other than int64/bool/float64; shapes beyond 2x3 (quick) / 3x4 (thorough)')
TRACES_QUICK = 16


def _add(c):
    CONDS[c.name] = c
    return c


def canonical(ncols):
    return tuple((1, 1) for _ in range(ncols))


def build(env, cells, nrows, ncols, layout, dtype='int64'):
    from static_frame.core.type_blocks import TypeBlocks
    cols = [[cells[r * ncols + c] for r in range(nrows)] for c in range(ncols)]
    return TypeBlocks.from_blocks(layouts.build_blocks(env, cols, dtype, layout))


def obs_tb(env, tb):
    if not hasattr(tb, '_blocks'):
        return ['E', env.obs(tb)]
    vals = tb.values
    return ['TB', list(tb.shape), [dt.kind for dt in tb._dtypes], env.obs(vals.tolist())]


def attempt(env, fn):
    try:
        return obs_tb(env, fn())
    except Exception as e:  # noqa: BLE001
        return ['raises', type(e).__name__]


OPS = {}


def op(name, params=(), ranges=None):
    def deco(f):
        OPS[name] = (f, list(params), dict(ranges or {}))
        return f
    return deco


@op('values_and_views')
def _op_values(env, tb, rows, a):
    nrows, ncols = len(rows), len(rows[0])
    out = [env.obs(tb.values.tolist()),
           [[env.obs(tb._extract(r, c)) for c in range(ncols)] for r in range(nrows)],
           [env.obs(x.tolist()) for x in tb.axis_values(0)], [env.obs(x.tolist()) for x in tb.axis_values(1)],
           [[list(k), env.obs(v)] for k, v in tb.element_items()],
           list(tb.shape), len(tb._dtypes)]
    ref = [rows, rows, [[rows[r][c] for r in range(nrows)] for c in range(ncols)], rows,
           [[[r, c], rows[r][c]] for r in range(nrows) for c in range(ncols)], [nrows, ncols], ncols]
    return out, ref


@op('extract_row_col', params=[('r', 'int'), ('c', 'int')])
def _op_extract(env, tb, rows, a):
    nrows, ncols = len(rows), len(rows[0])
    r, c = a['r'], a['c']
    out = [attempt(env, lambda: tb._extract(r, c)), attempt(env, lambda: tb._extract(r, None)), attempt(env, lambda: tb._extract(None, c))]
    ok_r, ok_c = -nrows <= r < nrows, -ncols <= c < ncols
    ref = [['E', rows[r][c]] if ok_r and ok_c else ['raises', 'IndexError'],
           ['TB', [1, ncols], ['i'] * ncols, [rows[r]]] if ok_r else ['raises', 'IndexError'],
           ['TB', [nrows, 1], ['i'], [[rows[i][c]] for i in range(nrows)]] if ok_c else ['raises', 'IndexError']]
    return out, ref


@op('transpose')
def _op_transpose(env, tb, rows, a):
    nrows, ncols = len(rows), len(rows[0])
    return obs_tb(env, tb.transpose()), ['TB', [ncols, nrows], ['i'] * nrows, [[rows[r][c] for r in range(nrows)] for c in range(ncols)]]


# NOTE: a non-wrapping shift by >= the axis size raises ErrorInitFrame for negative column shifts in BOTH layouts
# (TypeBlocks._shift_blocks yields too many columns); that is a defect of shift, not of block transparency, and is
# outside C03: shifts are kept strictly inside the shape here.
@op('shift', params=[('rs', 'int'), ('cs', 'int'), ('wrap', 'bool')], ranges={'rs': (-1, 1), 'cs': (-2, 2)})
def _op_shift(env, tb, rows, a):
    nrows, ncols = len(rows), len(rows[0])
    rs, cs, wrap = a['rs'], a['cs'], a['wrap']
    from static_frame.core.type_blocks import TypeBlocks
    res = TypeBlocks.from_blocks(tb._shift_blocks(row_shift=rs, column_shift=cs, wrap=wrap, fill_value=-1))
    ref = []
    for r in range(nrows):
        row = []
        for c in range(ncols):
            sr, sc = r - rs, c - cs
            if wrap:
                row.append(rows[sr % nrows][sc % ncols])
            elif 0 <= sr < nrows and 0 <= sc < ncols:
                row.append(rows[sr][sc])
            else:
                row.append(-1)
        ref.append(row)
    return env.obs(res.values.tolist()), ref


@op('binary_scalar', params=[('k', 'int')])
def _op_binary(env, tb, rows, a):
    import operator
    k = a['k']
    r1 = tb._ufunc_binary_operator(operator=operator.add, other=k)
    r2 = tb._ufunc_binary_operator(operator=operator.lt, other=k)
    return [obs_tb(env, r1), obs_tb(env, r2)], [['TB', [len(rows), len(rows[0])], ['i'] * len(rows[0]), [[v + k for v in row] for row in rows]],
                                                  ['TB', [len(rows), len(rows[0])], ['b'] * len(rows[0]), [[v < k for v in row] for row in rows]]]


@op('binary_blocks')
def _op_binary_tb(env, tb, rows, a):
    import operator
    other = build(env, [v * 0 + 7 for row in rows for v in row], len(rows), len(rows[0]), canonical(len(rows[0])))
    r1 = tb._ufunc_binary_operator(operator=operator.sub, other=other)
    return obs_tb(env, r1), ['TB', [len(rows), len(rows[0])], ['i'] * len(rows[0]), [[v - 7 for v in row] for row in rows]]


@op('sum_min_axes')
def _op_reduce(env, tb, rows, a):
    xp = env.xp
    nrows, ncols = len(rows), len(rows[0])
    out = []
    for axis in (0, 1):
        out.append(env.obs(tb.ufunc_axis_skipna(skipna=True, axis=axis, ufunc=xp.sum, ufunc_skipna=xp.nansum, composable=True, dtypes=(), size_one_unity=True).tolist()))
        out.append(env.obs(tb.ufunc_axis_skipna(skipna=False, axis=axis, ufunc=xp.min, ufunc_skipna=xp.nanmin, composable=True, dtypes=(), size_one_unity=True).tolist()))
    cols = [[rows[r][c] for r in range(nrows)] for c in range(ncols)]
    ref = [[sum(c) for c in cols], [min(c) for c in cols], [sum(r) for r in rows], [min(r) for r in rows]]
    return out, ref


@op('drop_col', params=[('c', 'int')], ranges={'c': (0, 2)})
def _op_drop(env, tb, rows, a):
    c = a['c']
    res = tb.drop((None, c))
    return obs_tb(env, res), ['TB', [len(rows), len(rows[0]) - 1], ['i'] * (len(rows[0]) - 1), [[v for j, v in enumerate(row) if j != c] for row in rows]]


@op('astype_col', params=[('c', 'int')], ranges={'c': (0, 2)})
def _op_astype(env, tb, rows, a):
    from static_frame.core.type_blocks import TypeBlocks
    c = a['c']
    res = TypeBlocks.from_blocks(tb._astype_blocks(c, float))
    return obs_tb(env, res), ['TB', [len(rows), len(rows[0])], ['f' if j == c else 'i' for j in range(len(rows[0]))], rows]


@op('consolidate_equals')
def _op_consolidate(env, tb, rows, a):
    con = tb.consolidate()
    can = build(env, [v for row in rows for v in row], len(rows), len(rows[0]), canonical(len(rows[0])))
    return [obs_tb(env, con), env.obs(tb.equals(can)), env.obs(can.equals(tb)), env.obs(con.equals(tb))], \
           [['TB', [len(rows), len(rows[0])], ['i'] * len(rows[0]), rows], True, True, True]


def mk(opname, nrows, ncols, layout, tier='quick', timeout=None):
    fn, extra, ranges = OPS[opname]

    def body(env, **kw):
        cells = [kw[f'v{i}'] for i in range(nrows * ncols)]
        rows = [[cells[r * ncols + c] for c in range(ncols)] for r in range(nrows)]
        tb_l = build(env, cells, nrows, ncols, layout)
        tb_c = build(env, cells, nrows, ncols, canonical(ncols))
        try:
            got_l, ref = fn(env, tb_l, rows, kw)
        except Exception as e:  # noqa: BLE001
            got_l, ref = ['raises', type(e).__name__], None
        try:
            got_c, ref_c = fn(env, tb_c, rows, kw)
        except Exception as e:  # noqa: BLE001
            got_c, ref_c = ['raises', type(e).__name__], None
        if ref is None:
            ref = ref_c
        # layout result == canonical-layout result == list reference
        return [got_l, got_c], [ref, ref]
    params = [(f'v{i}', 'int') for i in range(nrows * ncols)] + extra
    return Cond(f'{opname}_{nrows}x{ncols}_{layouts.name(layout)}', params, body, ranges=ranges,
            functions=['TypeBlocks.from_blocks'],
            bounds=f'{nrows}x{ncols} int64 cells all UNBOUNDED symbolic; layout {layout} vs canonical {canonical(ncols)}; operation arguments symbolic ({[p for p, _ in extra]})',
            route=f'TypeBlocks operation {opname}: layout result == canonical result == list reference', tier=tier, timeout=timeout or 200)


LAYOUTS3 = [((2, 3),), ((2, 2), (1, 1)), ((1, 1), (2, 2)), ((2, 1), (1, 1), (2, 1))]
QUICK = {'values_and_views': LAYOUTS3[:2], 'extract_row_col': LAYOUTS3[1:3], 'transpose': LAYOUTS3[:2], 'shift': LAYOUTS3[1:3],
         'binary_scalar': [LAYOUTS3[1]], 'binary_blocks': [LAYOUTS3[0], LAYOUTS3[2]], 'sum_min_axes': LAYOUTS3[1:3],
         'drop_col': LAYOUTS3[:3], 'astype_col': LAYOUTS3[:3], 'consolidate_equals': [LAYOUTS3[1], LAYOUTS3[3]]}
for _op, _lays in QUICK.items():
    for _lay in _lays:
        _add(mk(_op, 2, 3, _lay))
for _op in OPS:
    for _lay in layouts.compositions(3):
        c = mk(_op, 2, 3, _lay, tier='thorough', timeout=900)
        if c.name not in CONDS:
            _add(c)


# ---- Frame structural coherence: constructor rejects label counts that do not match the blocks

def body_frame_shape(env, ni, nc):
    sf = env.sf
    from static_frame.core.exception import ErrorInitFrame
    cells = list(range(6))
    tb = build(env, cells, 2, 3, ((2, 2), (1, 1)))
    idx = None
    for k in range(1, 4):
        if ni == k:
            idx = list(range(k))
    cols = None
    for k in range(1, 5):
        if nc == k:
            cols = list(range(k))
    try:
        f = sf.Frame(tb, index=idx, columns=cols)
        got = ['ok', list(f.shape), len(f.index), len(f.columns)]
    except ErrorInitFrame:
        got = ['ErrorInitFrame']
    exp = ['ok', [2, 3], 2, 3] if (ni == 2 and nc == 3) else ['ErrorInitFrame']
    return got, exp


_add(Cond('frame_init_shape_check', [('ni', 'int'), ('nc', 'int')], body_frame_shape, ranges={'ni': (1, 3), 'nc': (1, 4)},
        functions=['Frame.__init__'],
        bounds='2x3 TypeBlocks with index/columns of symbolic lengths 1..3 / 1..4 (an empty label list means "no labels given")',
        route='Frame(TypeBlocks, index, columns): exactly one row per index label and one column per column label, else ErrorInitFrame'))


# ---------------------------------------------------------------- every layout at once: float cells with a symbolic missing pattern
# One solver Boolean per cell (missing or not) and one per optional argument; each path then applies a LIST of Frame
# operations to the same cells packed into EVERY block layout and compares each layout with the canonical one.

def obs_frame(env, f):
    sf = env.sf
    if isinstance(f, sf.Frame):
        return ['F', env.obs(f.index.values.tolist()), env.obs(f.columns.values.tolist()),
                env.obs(f.values.tolist()) if f.shape[0] and f.shape[1] else [list(f.shape)], [(str(dt) if dt.kind in 'US' else dt.kind) for dt in f._blocks._dtypes]]
    if isinstance(f, sf.Series):
        return ['S', env.obs(f.index.values.tolist()), env.obs(f.values.tolist()), str(f.values.dtype)]
    return ['E', env.obs(f)]


FRAME_OPS = [
    ('fillna_leading_1', lambda f, xp: f.fillna_leading(-7, axis=1)), ('fillna_trailing_1', lambda f, xp: f.fillna_trailing(-7, axis=1)),
    ('fillna_leading_0', lambda f, xp: f.fillna_leading(-7, axis=0)), ('fillna_trailing_0', lambda f, xp: f.fillna_trailing(-7, axis=0)),
    ('fillna_forward_1', lambda f, xp: f.fillna_forward(axis=1)), ('fillna_backward_1', lambda f, xp: f.fillna_backward(axis=1)),
    ('fillna_forward_0', lambda f, xp: f.fillna_forward(axis=0)), ('fillna', lambda f, xp: f.fillna(-7)),
    ('isna', lambda f, xp: f.isna()), ('count_0', lambda f, xp: f.count(axis=0)), ('count_1', lambda f, xp: f.count(axis=1)),
    ('dropna_any_1', lambda f, xp: f.dropna(axis=1, condition=xp.any)), ('dropna_all_0', lambda f, xp: f.dropna(axis=0, condition=xp.all)),
    ('sum_0', lambda f, xp: f.sum(axis=0)), ('sum_1', lambda f, xp: f.sum(axis=1)), ('sum_0_noskip', lambda f, xp: f.sum(axis=0, skipna=False)),
    ('min_1', lambda f, xp: f.min(axis=1)), ('max_0_noskip', lambda f, xp: f.max(axis=0, skipna=False)), ('prod_0', lambda f, xp: f.prod(axis=0)),
    ('cumsum_1', lambda f, xp: f.cumsum(axis=1)), ('transpose', lambda f, xp: f.transpose()), ('shift', lambda f, xp: f.shift(0, 1)),
    ('roll', lambda f, xp: f.roll(0, 1, include_columns=True)), ('astype_str', lambda f, xp: f.iloc[:, 1:].astype(object)),
    ('eq_self', lambda f, xp: f == f), ('neg', lambda f, xp: -f), ('iloc_rev', lambda f, xp: f.iloc[::-1, ::-1]),
    ('iter_array_1', lambda f, xp: tuple(a.tolist() for a in f.iter_array(axis=1))), ('to_pairs', lambda f, xp: f.to_pairs(0)),
]


OP_GROUPS = {'fills': FRAME_OPS[0:8], 'na': FRAME_OPS[8:13], 'reduce': FRAME_OPS[13:20], 'struct': FRAME_OPS[20:]}


def mk_missing_all_layouts(nrows, ncols, group, tier='quick', flag_rows=None, uniform_singles=False, timeout=400):
    lays = layouts.compositions(ncols)
    if uniform_singles:   # per width pattern only "all one-column blocks 1-D" and "all one-column blocks 2-D"
        lays = [lay for lay in lays if len({nd for nd, w in lay if w == 1}) <= 1]
    flag_rows = nrows if flag_rows is None else flag_rows      # rows whose cells may be missing (the others never are)
    FRAME_OPS = OP_GROUPS[group]     # noqa: N806  (shadows the full list inside this condition)

    def body(env, **kw):
        from vf import rt
        flags = [[(bool(kw[f'm{r}{c}']) if r < flag_rows else False) for c in range(ncols)] for r in range(nrows)]

        def run():
            sf = env.sf
            from static_frame.core.type_blocks import TypeBlocks
            xp = env.xp
            cols = [[(env.nan if flags[r][c] else 10 * (r + 1) + c) for r in range(nrows)] for c in range(ncols)]

            def results(lay):
                tb = TypeBlocks.from_blocks(layouts.build_blocks(env, cols, 'float64', lay))
                f = sf.Frame(tb, index=[100 + r for r in range(nrows)], columns=[chr(97 + c) for c in range(ncols)], name='nm')
                out = []
                for name, fn in FRAME_OPS:
                    try:
                        r = fn(f, xp)
                        out.append([name, obs_frame(env, r) if not isinstance(r, tuple) else env.obs(list(r))])
                    except Exception as e:  # noqa: BLE001
                        out.append([name, 'raises', type(e).__name__])
                return out
            can = results(canonical(ncols))
            got = [results(lay) for lay in lays]
            return got, [can] * len(lays)
        return rt.untraced(run)
    return Cond(f'frame_ops_all_layouts_{group}_{nrows}x{ncols}', [(f'm{r}{c}', 'bool') for r in range(flag_rows) for c in range(ncols)], body,
            functions=['TypeBlocks._fillna_sided_axis_1', 'TypeBlocks.ufunc_axis_skipna'],
            bounds=f'{nrows}x{ncols} float64 frame, every missing pattern of the first {flag_rows} row(s) (one symbolic Boolean per cell), concrete other cells; {len(lays)} block layouts ({'one-column blocks all 1-D or all 2-D per width pattern' if uniform_singles else 'every composition'}) against the one-block-per-column layout; {len(FRAME_OPS)} Frame operations',
            route='Frame operations (' + ', '.join(n for n, _ in FRAME_OPS) + '): values, labels, per-column dtype kinds and raised error class equal across all block layouts', tier=tier, timeout=timeout)


for _g in OP_GROUPS:
    _add(mk_missing_all_layouts(1, 4, _g))
    _add(mk_missing_all_layouts(2, 3, _g))
    _add(mk_missing_all_layouts(1, 5, _g, tier='thorough', uniform_singles=True, timeout=1500))
    _add(mk_missing_all_layouts(3, 3, _g, tier='thorough', flag_rows=2, timeout=1500))


# ---------------------------------------------------------------- dtype-kind mixes: one-row reductions over every layout
# (the condition builder is shared with C15; here the claim is the layout-independence half of it)
from harness.C15 import mk_mixed as _mk_mixed  # noqa: E402

for _op, _n in (('sum', 1), ('prod', 1), ('sum', 2)):
    _c = _mk_mixed(_op, _n, 0)
    _c.name = 'layouts_' + _c.name
    _c.route = 'block-layout independence of ' + _c.route
    _add(_c)


# ---------------------------------------------------------------- every layout at once: column KINDS symbolic, keyed operations

KIND_OPS = [
    ('consolidate', lambda f, k, xp: f.consolidate() if hasattr(f, 'consolidate') and not hasattr(f.consolidate, 'iloc') else f.__class__(f._blocks.consolidate(), index=f.index, columns=f.columns)),
    ('iloc_cols', lambda f, k, xp: f.iloc[:, k]), ('iloc_rows_cols', lambda f, k, xp: f.iloc[::-1, k]), ('iloc_row', lambda f, k, xp: f.iloc[1, k]), ('iloc_row0', lambda f, k, xp: f.iloc[0, k]), ('loc_row0', lambda f, k, xp: f.loc[100, f.columns.values[k].tolist()] if not isinstance(k, slice) else f.loc[100][k]),
    ('drop_cols', lambda f, k, xp: f.drop.iloc[:, k]), ('mask_cols', lambda f, k, xp: f.mask.iloc[0, k]),
    ('assign_cols', lambda f, k, xp: f.assign.iloc[1, k](-7)), ('astype_cols', lambda f, k, xp: f.astype.iloc[:, k](float) if False else f.astype[f.columns.values[k].tolist() if not isinstance(f.columns.values[k], str) else f.columns.values[k]](float)),
    ('shift_cols', lambda f, k, xp: f.shift(0, 1, fill_value=-1)), ('roll_cols', lambda f, k, xp: f.roll(1, -1, include_index=True, include_columns=True)),
    ('transpose', lambda f, k, xp: f.transpose()), ('add_scalar', lambda f, k, xp: f.iloc[:, k] * 2), ('eq_scalar', lambda f, k, xp: f == 3),
    ('to_pairs', lambda f, k, xp: f.to_pairs(0)), ('iter_tuple', lambda f, k, xp: tuple(tuple(t) for t in f.iter_tuple(axis=1))),
    ('dtypes', lambda f, k, xp: f.dtypes), ('iter_series0', lambda f, k, xp: tuple(s.values.tolist() for s in f.iter_series(axis=0))),
    ('isin', lambda f, k, xp: f.isin((3, 1.5, True))), ('clip_none', lambda f, k, xp: f.iloc[:, k].head(1)),
    ('sort_cols_desc', lambda f, k, xp: f.sort_columns(ascending=False)), ('reindex_cols', lambda f, k, xp: f.reindex(columns=['d', 'b', 'zz'], fill_value=-1)),
    ('rename_insert', lambda f, k, xp: f.insert_after('b', f['a'].rename('new'))),
]
COL_KEYS4 = (slice(2, 4), [2, 0], [True, False, True, True], slice(1, 3), slice(None, None, -1))
BINOP_OPS = [('add_frame', lambda f, k, xp: f + f.iloc[:, k]), ('lt_frame', lambda f, k, xp: f.iloc[:, k] < f)]
K4 = (('int64', (3, 4)), ('float64', (1.5, 2.5)), ('bool', (True, False)), ('object', (7, 'zz')), ('<U4', ('c', 'abcd')))
# per column: which kinds it may take (index into K4); the first entry is the value of the symbolic selector 0
K4_CHOICES = ((0, 1), (1, 0, 2), (1, 3, 4), (0, 2, 4))       # groups that move cells without computing on them
K4_CHOICES_NUM = ((0, 1), (0, 1, 2), (0, 1, 1), (0, 1, 2))   # groups with arithmetic: numeric kinds and bool only


def _lays_for(kinds, every=True):
    out = []
    for lay in layouts.compositions(len(kinds)):
        if not every:
            # quick tier: per width pattern only "all one-column blocks 1-D" and "all one-column blocks 2-D"
            forms = {nd for nd, w in lay if w == 1}
            if len(forms) > 1:
                continue
        j, ok = 0, True
        for nd, w in lay:
            if len(set(kinds[j:j + w])) > 1:
                ok = False
            j += w
        if ok:
            out.append(lay)
    return out


def mk_kinds_all_layouts(group, tier='quick', pre=(), suffix='', part='all'):
    byname = dict(KIND_OPS)
    names = {'select': ('iloc_cols', 'iloc_rows_cols'), 'select_row': ('iloc_row', 'iloc_row0', 'loc_row0', 'clip_none'), 'update': ('drop_cols', 'mask_cols', 'assign_cols', 'astype_cols'),
             'arith': ('add_scalar', 'eq_scalar', 'isin'), 'retype': ('consolidate', 'shift_cols', 'roll_cols', 'transpose'),
             'views': ('to_pairs', 'iter_tuple', 'dtypes', 'iter_series0'), 'relabel': ('sort_cols_desc', 'reindex_cols', 'rename_insert')}
    ops = BINOP_OPS if group == 'binop' else [(n, byname[n]) for n in names[group]]
    uses_key = group in ('select', 'select_row', 'update', 'arith', 'binop')

    def body(env, k0, k1, k2, k3, ck):
        from vf import rt
        kinds = []
        choices = K4_CHOICES if group in ('select', 'select_row', 'update') else K4_CHOICES_NUM
        for col, k in enumerate((k0, k1, k2, k3)):
            for c in range(len(choices[col])):
                if k == c:
                    kinds.append(choices[col][c])
        key = None
        for i, kk in enumerate(COL_KEYS4):
            if ck == i:
                key = kk

        def run():
            sf = env.sf
            from static_frame.core.type_blocks import TypeBlocks
            xp = env.xp
            cols = [list(K4[k][1]) for k in kinds]
            for c in range(4):      # make the cells of equal-kind columns differ
                if kinds[c] == 0:
                    cols[c] = [3 + 10 * c, 4 + 10 * c]
                elif kinds[c] == 1:
                    cols[c] = [1.5 + c, 2.5 + c]
                elif kinds[c] == 3:
                    cols[c] = [7 + c, 'zz']
            dts = [K4[k][0] for k in kinds]

            def results(lay):
                tb = TypeBlocks.from_blocks(layouts.build_blocks_typed(env, cols, dts, lay))
                f = sf.Frame(tb, index=[100, 101], columns=['a', 'b', 'c', 'd'], name='nm')
                lib_key = env.array(list(key), 'bool') if (isinstance(key, list) and isinstance(key[0], bool)) else key
                out = []
                for name, fn in ops:
                    try:
                        r = fn(f, lib_key, xp)
                        o = obs_frame(env, r) if not isinstance(r, tuple) else env.obs(list(r))
                        if part == 'values' and o[0] == 'F':
                            o = o[:4]            # labels and cells
                        elif part == 'dtypes' and o[0] == 'F':
                            o = ['F', o[4]]      # per-column dtype kinds only
                        out.append([name, o])
                    except Exception as e:  # noqa: BLE001
                        out.append([name, 'raises', type(e).__name__])
                return out
            can = results(canonical(4))
            lays = _lays_for(kinds, every=(tier != 'quick'))
            got = [results(lay) for lay in lays]
            return got, [can] * len(lays)
        return rt.untraced(run)
    return Cond(f'frame_ops_all_layouts_kinds_{group}{suffix}' + ('' if tier == 'quick' else '_every'), [('k0', 'int'), ('k1', 'int'), ('k2', 'int'), ('k3', 'int'), ('ck', 'int')], body,
            ranges={'k0': (0, 1), 'k1': (0, 1 if tier == 'quick' else 2), 'k2': (0, 2), 'k3': (0, 2), 'ck': (0, (2 if tier == 'quick' else 4))}, pre=list(pre) + ([] if group in ('select', 'select_row', 'update') else ['k2 != 2']) + ([] if uses_key else ['ck == 0']),
            functions=['TypeBlocks._extract', 'TypeBlocks._drop_blocks'] if group == 'select' else [],
            bounds=f'2x4 frame; column kinds symbolic (per column a choice among int64, float64, bool, object holding an int and a str, <U4 holding a shorter string); column key symbolic over {COL_KEYS4}; EVERY block layout that can hold the kinds against one block per column; operations: ' + ', '.join(n for n, _ in ops),
            route='keyed and whole-frame operations on mixed column kinds: values, labels, per-column dtype kinds and raised error class equal across all block layouts', tier=tier, timeout=600)


for _g in ('select', 'select_row', 'update', 'arith', 'retype', 'views', 'relabel'):
    _add(mk_kinds_all_layouts(_g))
    _add(mk_kinds_all_layouts(_g, tier='thorough')).timeout = 1800
# Frame op Frame: labels and cells are decided here; the per-column DTYPES of the result depend on whether the two operands'
# blockings are compatible (incompatible blockings are consolidated to the row dtype first): finding F31, isolated below
_add(mk_kinds_all_layouts('binop', part='values', suffix='_values', pre=['k1 != 2 and k3 != 2 and k2 != 2']))
# (with a bool column the consolidated object arithmetic also changes VALUES: True + True is True in a bool block, 2 as objects)
_add(mk_kinds_all_layouts('binop', part='values', suffix='_values_bool_finding', pre=['(k1 == 2 or k3 == 2) and k2 != 2']))
_add(mk_kinds_all_layouts('binop', part='dtypes', suffix='_dtypes_finding'))
