"""Load the REAL static_frame source from /repo with `numpy` and `automap` bound to the contract
models (model world), or untouched (real world).

Model world: while static_frame is imported, sys.modules['numpy'] is vf.npmodel and
sys.modules['automap'] is vf.npmodel.automap, so every module-level `import numpy as np`,
`from automap import FrozenAutoMap`, every default argument (`fill_value=np.nan`), every
functools.partial over an np function and every class-level table of ufuncs in the real source binds
to the model.  Afterwards sys.modules is restored, so everything else in the process (CrossHair, z3)
sees the real NumPy.  Nothing under /repo is modified.
"""
import importlib
import os
import sys

REPO = os.environ.get('VERIF_REPO', '/repo')
_STATE = {}


def load(model=True):
    """Import static_frame (from REPO's working tree) and return the package module."""
    if 'sf' in _STATE:
        if _STATE['model'] != model:
            raise RuntimeError('static_frame already loaded in the other world')
        return _STATE['sf']
    if any(m == 'static_frame' or m.startswith('static_frame.') for m in sys.modules):
        raise RuntimeError('static_frame imported before vf.world.load()')
    if REPO not in sys.path:
        sys.path.insert(0, REPO)
    import numpy as real_np
    import numpy.ma  # noqa: F401  (submodule must already sit in sys.modules)
    if model:
        import automap as real_automap
        from vf import npmodel
        from vf.npmodel import automap as automap_model
        import types
        import concurrent.futures  # noqa: F401
        from vf.npmodel import executor as executor_model
        saved = {k: sys.modules.get(k) for k in ('numpy', 'automap', 'numpy.ma', 'concurrent.futures')}
        ma = types.ModuleType('numpy.ma')

        class MaskedArray:  # numpy.ma is C-backed: constructing one in the model world is a gap
            def __init__(self, *a, **kw):
                raise npmodel.ModelGap('numpy.ma.MaskedArray')
        ma.MaskedArray = MaskedArray
        sys.modules['numpy'] = npmodel
        sys.modules['numpy.ma'] = ma
        sys.modules['automap'] = automap_model
        sys.modules['concurrent.futures'] = executor_model
        try:
            sf = importlib.import_module('static_frame')
        finally:
            for k, v in saved.items():
                sys.modules[k] = v
    else:
        sf = importlib.import_module('static_frame')
    if model:
        _install_symlist()
    origin = os.path.realpath(sf.__file__)
    if not origin.startswith(os.path.realpath(REPO) + os.sep):
        raise RuntimeError(f'static_frame imported from {origin}, not from {REPO}')
    _STATE['sf'] = sf
    _STATE['model'] = model
    return sf


def is_model():
    return _STATE.get('model', False)


def xp():
    """The array namespace of the loaded world (vf.npmodel or real numpy)."""
    if _STATE.get('model'):
        from vf import npmodel
        return npmodel
    import numpy
    return numpy


class SymList(list):
    """A list whose int/slice indexing is CPython's documented algorithm written in Python, so that a
    symbolic key splits per region (negative / in range / out of range; slice regions) instead of
    being realised value by value inside list.__getitem__ (C)."""
    __slots__ = ()

    def __getitem__(self, key):
        from vf.npmodel.array import slice_positions, cint
        n = len(self)
        if isinstance(key, slice):
            pos = slice_positions(key, n)[0]
            return [list.__getitem__(self, i) for i in pos]
        if isinstance(key, int) and not isinstance(key, bool):
            i = key
            if i < 0:
                i = i + n
            if i < 0 or i >= n:
                raise IndexError('list index out of range')
            return list.__getitem__(self, cint(i, 0, n))
        return list.__getitem__(self, key)

    def copy(self):
        return SymList(self)


def _install_symlist():
    """TypeBlocks._index (the (block, column) directory, a Python list indexed by the column key) is
    re-wrapped as a SymList after the REAL __init__/__setstate__ have run."""
    from static_frame.core.type_blocks import TypeBlocks
    real_init = TypeBlocks.__init__
    real_setstate = TypeBlocks.__setstate__

    def __init__(self, *a, **kw):
        real_init(self, *a, **kw)
        if self._index.__class__ is not SymList:
            self._index = SymList(self._index)
    __init__.__wrapped__ = real_init

    def __setstate__(self, state):
        real_setstate(self, state)
        if self._index.__class__ is not SymList:
            self._index = SymList(self._index)
    TypeBlocks.__init__ = __init__
    TypeBlocks.__setstate__ = __setstate__
