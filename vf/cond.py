"""Condition = one solver query: a harness body over symbolic parameters plus structural constants."""
import random

TYPES = {'int': 'int', 'bool': 'bool', 'oint': 'Optional[int]', 'str': 'str'}


class Cond:
    def __init__(self, name, params, body, ranges=None, pre=(), functions=(), bounds='', route='',
            tier='quick', timeout=None, tape=0, note='', mirror=(), fixed=None):
        """
        params:    list of (name, kind) with kind in TYPES ('int', 'bool', 'oint' = Optional[int], 'str')
        body:      callable(env, **args) -> (observed, expected)   (expected from a list/dict reference)
        ranges:    {param: (lo, hi)} inclusive bounds, turned into PEP316 `pre:` lines; ints without a
                   range are UNBOUNDED in the solver query
        pre:       extra PEP316 precondition expressions
        functions: repo function qualnames the body must enter (reachability witness)
        tape:      number of symbolic nondeterminism-tape Booleans appended to the parameters
        """
        self.name = name
        self.params = list(params) + [(f'tape{i}', 'bool') for i in range(tape)]
        self.tape = tape
        self.body = body
        self.ranges = dict(ranges or {})
        self.pre = list(pre)
        self.functions = list(functions)
        self.bounds = bounds
        self.route = route
        self.tier = tier
        self.timeout = timeout
        self.note = note
        self.fixed = dict(fixed or {})  # concrete (non-symbolic) body arguments of this condition
        self.mirror = list(mirror)  # [(src_prefix, dst_prefix)]: samples often copy src* into dst*

    INT_BOUND = 2 ** 53   # every symbolic int without an explicit range is any value with |v| <= 2**53
                          # (float64-exact, far inside int64: the model has no int64 wrap-around)

    def pre_lines(self):
        out = []
        for p, kind in self.params:
            if p in self.ranges:
                continue
            if kind == 'int':
                out.append(f'-{self.INT_BOUND} <= {p} <= {self.INT_BOUND}')
            elif kind == 'oint':
                out.append(f'{p} is None or -{self.INT_BOUND} <= {p} <= {self.INT_BOUND}')
        for p, (lo, hi) in self.ranges.items():
            kind = dict(self.params)[p]
            if kind == 'oint':
                out.append(f'{p} is None or {lo} <= {p} <= {hi}')
            elif kind == 'str':
                out.append(f'{lo} <= len({p}) <= {hi}')
            else:
                out.append(f'{lo} <= {p} <= {hi}')
        return out + self.pre

    def sample(self, rng):
        """A concrete argument dict satisfying the preconditions (rejection sampling)."""
        for _ in range(2000):
            args = {}
            for p, kind in self.params:
                lo, hi = self.ranges.get(p, (None, None))
                if kind == 'bool':
                    args[p] = rng.random() < 0.4
                elif kind == 'str':
                    n = rng.randint(lo or 0, hi if hi is not None else 3)
                    args[p] = ''.join(rng.choice('ab,"') for _ in range(n))
                else:
                    if kind == 'oint' and rng.random() < 0.25:
                        args[p] = None
                        continue
                    if lo is None:
                        args[p] = rng.choice([rng.randint(-7, 7), rng.randint(-3, 3), rng.randint(-100, 100)])
                    else:
                        args[p] = rng.randint(lo, hi)
            for src, dst in self.mirror:
                if rng.random() < 0.6:
                    names = [p for p, _ in self.params if p.startswith(dst) and (src + p[len(dst):]) in args]
                    for p in names:
                        args[p] = args[src + p[len(dst):]]
                    if names and rng.random() < 0.5:   # differ in exactly one place
                        p = rng.choice(names)
                        if isinstance(args[p], bool):
                            args[p] = not args[p]
                        elif isinstance(args[p], int):
                            args[p] += 1
            from vf import rt as _rt
            in_range = True
            for p_, (lo_, hi_) in self.ranges.items():
                v_ = args.get(p_)
                if isinstance(v_, int) and not isinstance(v_, bool) and not (lo_ <= v_ <= hi_):
                    in_range = False
            if not in_range:
                continue
            if all(eval(e, {'_rt': _rt}, dict(args)) for e in self.pre):  # noqa: S307
                return args
        raise RuntimeError('could not sample inputs for ' + self.name)


def nan_or(env, flag, v):
    """A possibly-missing numeric cell: the solver chooses per cell (forks once)."""
    return env.nan if flag else v
