"""E3: AST -> SMT second opinion for loop-free integer kernels of static-frame (currently
util.slice_to_ascending_slice and util.slice_to_inclusive_slice).

The function's CURRENT source is read from the repository, its body is executed symbolically over the
Python AST (a ~150-line interpreter for the subset it uses: if/elif/else, assignments, returns, + - * //
by a positive constant, abs, min, comparisons, `is None`, boolean operators, slice(...), key.start/stop/
step, key.indices(size), the constant EMPTY_SLICE), with start / stop / size as z3 INTEGERS (unbounded)
and the step a constant per query.  Every feasible path yields (path condition, returned slice).

Obligation per path (slice_to_ascending_slice):  for all start, stop, size >= 0 and all positions i,
    i in positions(key, size)  <=>  i in positions(result, size),     and result.step is None or > 0,
where positions(...) is CPython's documented slicing semantics written directly as a z3 formula
(validated against CPython on a grid at every run).  unsat of the negation = holds for ALL integers;
sat = a concrete (start, stop, size, i), which is replayed on the real function before being reported.
Each query is also exported as SMT-LIB2 and decided by the z3 4.8.12 binary; disagreement or `unknown`
makes the query inconclusive.
"""
import ast
import inspect
import os
import subprocess
import tempfile
import textwrap

import z3

NONE = None


class SymSlice:
    def __init__(self, start, stop, step):
        self.start, self.stop, self.step = start, stop, step

    def __repr__(self):
        return f'SymSlice({self.start}, {self.stop}, {self.step})'


class SymSeq:
    """A non-empty sequence of ints of which the code may read the first element, the last element and the length."""
    def __init__(self, first, last, length):
        self.first, self.last, self.length = first, last, length


class Unsupported(Exception):
    pass


# ---------------------------------------------------------------------------------------------------
# CPython slicing semantics as z3 terms

def norm_indices(start, stop, step, size):
    """PySlice_AdjustIndices: -> (start', stop') as z3 terms; step is a concrete non-zero int."""
    neg = step < 0
    lower = z3.IntVal(-1) if neg else z3.IntVal(0)
    upper = (size - 1) if neg else size

    def adj(v, default):
        if v is NONE:
            return default
        return z3.If(v < 0, z3.If(v + size < lower, lower, v + size), z3.If(v > upper, upper, v))
    s = adj(start, upper if neg else lower)
    e = adj(stop, lower if neg else upper)
    return s, e


def member(i, sl, size):
    """i in range(*slice.indices(size)) as a z3 formula (step concrete)."""
    step = 1 if sl.step is NONE else sl.step
    s, e = norm_indices(sl.start, sl.stop, step, size)
    if step > 0:
        return z3.And(i >= s, i < e, (i - s) % step == 0)
    return z3.And(i <= s, i > e, (s - i) % (-step) == 0)


def py_member(i, start, stop, step, size):
    return i in range(size)[slice(start, stop, step)]


def validate_spec():
    """member() against CPython on a grid (evaluate the formula on concrete values)."""
    n = 0
    vals = [None, -7, -3, -1, 0, 1, 2, 4, 6]
    for size in range(0, 5):
        for a in vals:
            for b in vals:
                for c in (None, 1, 2, 3, -1, -2, -3):
                    sl = SymSlice(None if a is None else z3.IntVal(a), None if b is None else z3.IntVal(b), c)
                    for i in range(-1, size + 1):
                        f = z3.simplify(member(z3.IntVal(i), sl, z3.IntVal(size)))
                        want = py_member(i, a, b, c, size)
                        if z3.is_true(f) != want:
                            raise AssertionError(('slice spec mismatch', size, a, b, c, i, f, want))
                        n += 1
    return n


# ---------------------------------------------------------------------------------------------------
# symbolic AST interpreter

class Interp:
    def __init__(self, solver_timeout_ms=20000):
        self.timeout = solver_timeout_ms

    def feasible(self, pc):
        s = z3.Solver()
        s.set('timeout', self.timeout)
        s.add(*pc)
        return s.check() != z3.unsat

    def run(self, fn_ast, env, pc):
        """-> list of (path condition, return value)"""
        return self.block(fn_ast.body, dict(env), list(pc))

    def block(self, stmts, env, pc):
        for k, st in enumerate(stmts):
            rest = stmts[k + 1:]
            if isinstance(st, ast.Expr):
                continue  # docstring
            if isinstance(st, ast.Return):
                return [(pc, self.expr(st.value, env))]
            if isinstance(st, ast.Assign):
                if len(st.targets) != 1:
                    raise Unsupported('multiple assignment targets')
                val = self.expr(st.value, env)
                tgt = st.targets[0]
                if isinstance(tgt, ast.Name):
                    env[tgt.id] = val
                elif isinstance(tgt, ast.Tuple):
                    if not isinstance(val, tuple) or len(val) != len(tgt.elts):
                        raise Unsupported('tuple assignment from non-tuple')
                    for t, v in zip(tgt.elts, val):
                        env[t.id] = v
                else:
                    raise Unsupported('assignment target ' + ast.dump(tgt))
                continue
            if isinstance(st, ast.If):
                out = []
                for branch_pc, taken in self.cond(st.test, env, pc):
                    body = st.body if taken else st.orelse
                    out += self.block(list(body) + list(rest), dict(env), branch_pc)
                return out
            raise Unsupported('statement ' + type(st).__name__)
        return [(pc, NONE)]

    def cond(self, test, env, pc):
        """-> [(pc', truth)] for the feasible outcomes of a condition"""
        v = self.expr(test, env)
        if isinstance(v, bool):
            return [(pc, v)]
        out = []
        for truth, c in ((True, v), (False, z3.Not(v))):
            p = pc + [c]
            if self.feasible(p):
                out.append((p, truth))
        return out

    def expr(self, e, env):
        if isinstance(e, ast.Constant):
            return e.value
        if isinstance(e, ast.Name):
            if e.id in env:
                return env[e.id]
            if e.id == 'EMPTY_SLICE':
                return SymSlice(0, 0, NONE)
            if e.id == 'NULL_SLICE':
                return SymSlice(NONE, NONE, NONE)
            raise Unsupported('name ' + e.id)
        if isinstance(e, ast.Attribute):
            base = self.expr(e.value, env)
            if isinstance(base, SymSlice) and e.attr in ('start', 'stop', 'step'):
                return getattr(base, e.attr)
            raise Unsupported('attribute ' + e.attr)
        if isinstance(e, ast.Subscript):
            base = self.expr(e.value, env)
            if isinstance(base, SymSeq):
                idx = self.expr(e.slice, env)
                if idx == 0 and isinstance(idx, int):
                    return base.first
                if idx == -1 and isinstance(idx, int):
                    return base.last
            raise Unsupported('subscript')
        if isinstance(e, ast.UnaryOp):
            v = self.expr(e.operand, env)
            if isinstance(e.op, ast.Not):
                return (not v) if isinstance(v, bool) else z3.Not(v)
            if isinstance(e.op, ast.USub):
                return -v
            raise Unsupported('unary op')
        if isinstance(e, ast.BoolOp):
            # Python short-circuit evaluation: later operands are only evaluated while the result is undecided
            is_and = isinstance(e.op, ast.And)
            acc = []
            for sub in e.values:
                v = self.expr(sub, env)
                if isinstance(v, bool):
                    if v != is_and:          # False in an `and`, True in an `or`: decided
                        if not acc:
                            return v
                        acc.append(z3.BoolVal(v))
                        break
                    continue
                acc.append(v)
            if not acc:
                return is_and
            return z3.And(*acc) if is_and else z3.Or(*acc)
        if isinstance(e, ast.Compare):
            if len(e.ops) != 1:
                left = self.expr(e.left, env)
                parts = []
                for op, comp in zip(e.ops, e.comparators):
                    right = self.expr(comp, env)
                    parts.append(self.compare(op, left, right))
                    left = right
                if all(isinstance(p, bool) for p in parts):
                    return all(parts)
                return z3.And(*[z3.BoolVal(p) if isinstance(p, bool) else p for p in parts])
            return self.compare(e.ops[0], self.expr(e.left, env), self.expr(e.comparators[0], env))
        if isinstance(e, ast.BinOp):
            a, b = self.expr(e.left, env), self.expr(e.right, env)
            if a is NONE or b is NONE:
                raise Unsupported('arithmetic on None (the real code would raise TypeError)')
            if isinstance(e.op, ast.Add):
                return a + b
            if isinstance(e.op, ast.Sub):
                return a - b
            if isinstance(e.op, ast.Mult):
                return a * b
            if isinstance(e.op, ast.FloorDiv):
                if not isinstance(b, int) or b <= 0:
                    raise Unsupported('floor division by a non-constant or non-positive divisor')
                if isinstance(a, int):
                    return a // b
                return a / b   # z3 Int division: floor for a positive divisor (SMT-LIB `div`)
            raise Unsupported('binary op ' + type(e.op).__name__)
        if isinstance(e, ast.IfExp):
            t = self.expr(e.test, env)
            if isinstance(t, bool):
                return self.expr(e.body if t else e.orelse, env)
            a, b = self.expr(e.body, env), self.expr(e.orelse, env)
            if a is NONE or b is NONE:
                raise Unsupported('conditional expression mixing None and ints under a symbolic test')
            return z3.If(t, a, b)
        if isinstance(e, ast.Call):
            if isinstance(e.func, ast.Name):
                args = [self.expr(a, env) for a in e.args]
                if e.func.id == 'abs':
                    v = args[0]
                    return abs(v) if isinstance(v, int) else z3.If(v < 0, -v, v)
                if e.func.id == 'min':
                    a, b = args
                    if isinstance(a, int) and isinstance(b, int):
                        return min(a, b)
                    return z3.If(a <= b, a, b)
                if e.func.id == 'max':
                    a, b = args
                    if isinstance(a, int) and isinstance(b, int):
                        return max(a, b)
                    return z3.If(a >= b, a, b)
                if e.func.id == 'len' and isinstance(args[0], SymSeq):
                    return args[0].length
                if e.func.id == 'slice':
                    while len(args) < 3:
                        args.append(NONE)
                    if len(e.args) == 1:
                        return SymSlice(NONE, args[0], NONE)
                    return SymSlice(args[0], args[1], args[2])
                raise Unsupported('call ' + e.func.id)
            if isinstance(e.func, ast.Attribute) and e.func.attr == 'indices':
                base = self.expr(e.func.value, env)
                size = self.expr(e.args[0], env)
                step = 1 if base.step is NONE else base.step
                if not isinstance(step, int):
                    raise Unsupported('indices() with symbolic step')
                s, t = norm_indices(base.start, base.stop, step, size)
                return (s, t, step)
            raise Unsupported('call')
        raise Unsupported('expression ' + type(e).__name__)

    @staticmethod
    def compare(op, a, b):
        if isinstance(op, (ast.Is, ast.IsNot)):
            if a is NONE or b is NONE:
                r = (a is NONE) and (b is NONE)
            else:
                raise Unsupported('`is` between non-None values')
            return r if isinstance(op, ast.Is) else not r
        if a is NONE or b is NONE:
            if isinstance(op, ast.Eq):
                return a is NONE and b is NONE
            if isinstance(op, ast.NotEq):
                return not (a is NONE and b is NONE)
            raise Unsupported('ordering comparison with None (the real code would raise TypeError)')
        table = {ast.Eq: lambda: a == b, ast.NotEq: lambda: a != b, ast.Lt: lambda: a < b, ast.LtE: lambda: a <= b,
                 ast.Gt: lambda: a > b, ast.GtE: lambda: a >= b}
        for k, f in table.items():
            if isinstance(op, k):
                return f()
        raise Unsupported('comparison ' + type(op).__name__)


class _HoistIfExp(ast.NodeTransformer):
    """x = f(A if T else B)  ==>  if T: _t = A / else: _t = B ; x = f(_t)   (so that a conditional
    expression whose arms are None / int splits the PATH instead of needing a union-typed value)"""

    def __init__(self):
        self.n = 0

    def hoist(self, stmt):
        pre = []

        class Inner(ast.NodeTransformer):
            def visit_IfExp(inner, node):  # noqa: N805
                node = inner.generic_visit(node)
                self.n += 1
                name = f'_ifexp{self.n}'
                pre.append(ast.If(test=node.test,
                        body=[ast.Assign(targets=[ast.Name(id=name, ctx=ast.Store())], value=node.body)],
                        orelse=[ast.Assign(targets=[ast.Name(id=name, ctx=ast.Store())], value=node.orelse)]))
                return ast.Name(id=name, ctx=ast.Load())
        new = Inner().visit(stmt)
        return pre + [new]

    def process(self, stmts):
        out = []
        for st in stmts:
            if isinstance(st, ast.If):
                st.body = self.process(st.body)
                st.orelse = self.process(st.orelse)
                out.append(st)
            elif isinstance(st, (ast.Assign, ast.Return)):
                out += self.hoist(st)
            else:
                out.append(st)
        return out


def function_ast(repo, relpath, name):
    src = open(os.path.join(repo, relpath)).read()
    tree = ast.parse(src)
    for node in ast.walk(tree):
        if isinstance(node, ast.FunctionDef) and node.name == name:
            node.body = _HoistIfExp().process(node.body)
            ast.fix_missing_locations(node)
            return node
    raise Unsupported('function not found: ' + name)


def z3_binary_verdict(solver):
    """Second solver: the same query through the z3 4.8.12 binary."""
    smt = solver.to_smt2()
    with tempfile.NamedTemporaryFile('w', suffix='.smt2', delete=False) as f:
        f.write(smt)
        path = f.name
    try:
        p = subprocess.run(['/usr/bin/z3', '-T:60', path], capture_output=True, text=True, timeout=90)
        out = p.stdout.strip().splitlines()
        if any('(error' in l for l in out):
            return 'error'
        return out[0] if out else 'none'
    except Exception:  # noqa: BLE001
        return 'none'
    finally:
        os.unlink(path)


def check_ascending(repo, steps=(-1, -2, -3, -4, -5, -7, 1, 2, 3, None)):
    """-> list of query records for util.slice_to_ascending_slice"""
    fn = function_ast(repo, 'static_frame/core/util.py', 'slice_to_ascending_slice')
    interp = Interp()
    records = []
    for step in steps:
        for start_none in (False, True):
            for stop_none in (False, True):
                start = NONE if start_none else z3.Int('start')
                stop = NONE if stop_none else z3.Int('stop')
                size = z3.Int('size')
                i = z3.Int('i')
                key = SymSlice(start, stop, step)
                name = f'e3_slice_to_ascending_step{step}_start{"None" if start_none else "Z"}_stop{"None" if stop_none else "Z"}'
                rec = dict(cond=name, bounds='start, stop, size, i: ALL integers (size >= 0); step = %r' % (step,), verdict='confirmed', paths=0, msg='')
                try:
                    paths = interp.run(fn, {'key': key, 'size': size}, [size >= 0])
                except Unsupported as ex:
                    rec.update(verdict='inconclusive', msg='not translatable: ' + str(ex))
                    records.append(rec)
                    continue
                rec['paths'] = len(paths)
                for pc, ret in paths:
                    if not isinstance(ret, SymSlice):
                        rec.update(verdict='inconclusive', msg='returns a non-slice')
                        break
                    rstep = 1 if ret.step is NONE else ret.step
                    if not isinstance(rstep, int):
                        rec.update(verdict='inconclusive', msg='symbolic result step')
                        break
                    s = z3.Solver()
                    s.set('timeout', 60000)
                    s.add(*pc)
                    if rstep <= 0:
                        s.add(z3.BoolVal(True))
                        bad = z3.BoolVal(True)
                    else:
                        bad = z3.Xor(member(i, key, size), member(i, ret, size))
                    s.add(bad)
                    r = str(s.check())
                    r2 = z3_binary_verdict(s)
                    if r == 'unsat' and r2 == 'unsat':
                        continue
                    if r == 'sat' and r2 in ('sat', 'none', 'timeout'):
                        m = s.model()
                        cex = dict(start=None if start_none else m.eval(start, model_completion=True).as_long(),
                                   stop=None if stop_none else m.eval(stop, model_completion=True).as_long(),
                                   step=step, size=m.eval(size, model_completion=True).as_long(),
                                   i=m.eval(i, model_completion=True).as_long())
                        rec.update(verdict='counterexample', args=cex, msg='selection differs at position i')
                        break
                    rec.update(verdict='inconclusive', msg=f'solvers: z3-api={r} z3-4.8.12={r2}')
                    break
                records.append(rec)
    return records


def replay_ascending(repo, cex):
    """Run the REAL function on the solver's values; True iff the selection really differs."""
    import importlib
    import sys
    if repo not in sys.path:
        sys.path.insert(0, repo)
    util = importlib.import_module('static_frame.core.util')
    key = slice(cex['start'], cex['stop'], cex['step'])
    size = cex['size']
    res = util.slice_to_ascending_slice(key, size)
    a = list(range(size))[key]
    b = list(range(size))[res]
    return sorted(a) != sorted(b) or not (res.step is None or res.step > 0), dict(key=repr(key), size=size, result=repr(res), selected=a, selected_by_result=b)


def _decide(s):
    r = str(s.check())
    r2 = z3_binary_verdict(s)
    if r == 'unsat' and r2 == 'unsat':
        return 'unsat'
    if r == 'sat' and r2 in ('sat', 'none', 'timeout'):
        return 'sat'
    return f'inconclusive (z3-api={r} z3-4.8.12={r2})'


def check_cols_to_slice(repo):
    """TypeBlocks._cols_to_slice(indices): `indices` is a non-empty run of contiguous column positions inside one block,
    ascending (f, f+1, ..., f+n-1) or descending (f, f-1, ..., f-n+1 >= 0).  For ALL f, n and every axis length
    size > max(indices) and every position i:  i is selected by the returned slice  <=>  min <= i <= max, and the slice
    runs in the direction of the run (step None/1 ascending, -1 descending)."""
    fn = function_ast(repo, 'static_frame/core/type_blocks.py', '_cols_to_slice')
    interp = Interp()
    records = []
    for direction in ('ascending', 'descending'):
        f, n, size, i = z3.Int('f'), z3.Int('n'), z3.Int('size'), z3.Int('i')
        last = f + (n - 1) if direction == 'ascending' else f - (n - 1)
        lo, hi = (f, last) if direction == 'ascending' else (last, f)
        pre = [n >= 1, f >= 0, last >= 0, size > hi]
        rec = dict(cond=f'e3_cols_to_slice_{direction}', bounds='first index f, run length n, axis length size, position i: ALL integers with f >= 0, n >= 1, last >= 0, size > max', verdict='confirmed', paths=0, msg='')
        try:
            paths = interp.run(fn, {'indices': SymSeq(f, last, n)}, pre)
        except Unsupported as ex:
            rec.update(verdict='inconclusive', msg='not translatable: ' + str(ex))
            records.append(rec)
            continue
        rec['paths'] = len(paths)
        for pc, ret in paths:
            if not isinstance(ret, SymSlice):
                rec.update(verdict='inconclusive', msg='returns a non-slice')
                break
            rstep = 1 if ret.step is NONE else ret.step
            if not isinstance(rstep, int):
                rec.update(verdict='inconclusive', msg='symbolic result step')
                break
            s = z3.Solver()
            s.set('timeout', 60000)
            s.add(*pc)
            want_dir = (rstep > 0) if direction == 'ascending' else (rstep < 0)
            if not want_dir:
                # a run of one element may be returned in either direction
                s.add(n > 1)
                bad = z3.BoolVal(True)
            else:
                bad = z3.Xor(member(i, ret, size), z3.And(i >= lo, i <= hi))
            s.add(bad)
            v = _decide(s)
            if v == 'unsat':
                continue
            if v == 'sat':
                m = s.model()
                g = lambda t: m.eval(t, model_completion=True).as_long()   # noqa: E731
                rec.update(verdict='counterexample', args=dict(f=g(f), n=g(n), direction=direction, size=g(size), i=g(i)), msg='selected positions differ from the run')
            else:
                rec.update(verdict='inconclusive', msg=v)
            break
        records.append(rec)
    return records


def replay_cols_to_slice(repo, cex):
    import importlib
    import sys
    if repo not in sys.path:
        sys.path.insert(0, repo)
    tb = importlib.import_module('static_frame.core.type_blocks')
    f, n = cex['f'], cex['n']
    idx = [f + k for k in range(n)] if cex['direction'] == 'ascending' else [f - k for k in range(n)]
    res = tb.TypeBlocks._cols_to_slice(idx)
    got = list(range(cex['size']))[res]
    return got != idx, dict(indices=idx, size=cex['size'], result=repr(res), selected=got)


def check_inclusive(repo):
    """util.slice_to_inclusive_slice(key, offset): start + offset, stop + 1 + offset, step kept; None stays None."""
    fn = function_ast(repo, 'static_frame/core/util.py', 'slice_to_inclusive_slice')
    interp = Interp()
    records = []
    for start_none in (False, True):
        for stop_none in (False, True):
            start = NONE if start_none else z3.Int('start')
            stop = NONE if stop_none else z3.Int('stop')
            offset = z3.Int('offset')
            rec = dict(cond=f'e3_slice_to_inclusive_start{"None" if start_none else "Z"}_stop{"None" if stop_none else "Z"}',
                       bounds='start, stop, offset: ALL integers', verdict='confirmed', paths=0, msg='')
            try:
                paths = interp.run(fn, {'key': SymSlice(start, stop, 3), 'offset': offset}, [])
            except Unsupported as ex:
                rec.update(verdict='inconclusive', msg='not translatable: ' + str(ex))
                records.append(rec)
                continue
            rec['paths'] = len(paths)
            for pc, ret in paths:
                ok = isinstance(ret, SymSlice) and ret.step == 3 and (ret.start is NONE) == start_none and (ret.stop is NONE) == stop_none
                if not ok:
                    rec.update(verdict='counterexample', args=dict(start=None if start_none else 0, stop=None if stop_none else 0, offset=0), msg='None-ness or step not kept')
                    break
                s = z3.Solver()
                s.add(*pc)
                bad = []
                if not start_none:
                    bad.append(ret.start != start + offset)
                if not stop_none:
                    bad.append(ret.stop != stop + 1 + offset)
                if not bad:
                    continue
                s.add(z3.Or(*bad))
                v = _decide(s)
                if v == 'unsat':
                    continue
                if v == 'sat':
                    m = s.model()
                    g = lambda t: m.eval(t, model_completion=True).as_long()   # noqa: E731
                    rec.update(verdict='counterexample', args=dict(start=None if start_none else g(start), stop=None if stop_none else g(stop), offset=g(offset)), msg='bounds differ')
                else:
                    rec.update(verdict='inconclusive', msg=v)
                break
            records.append(rec)
    return records


def replay_inclusive(repo, cex):
    import importlib
    import sys
    if repo not in sys.path:
        sys.path.insert(0, repo)
    util = importlib.import_module('static_frame.core.util')
    key = slice(cex['start'], cex['stop'], 3)
    res = util.slice_to_inclusive_slice(key, cex['offset'])
    exp = slice(None if key.start is None else key.start + cex['offset'], None if key.stop is None else key.stop + 1 + cex['offset'], 3)
    return res != exp, dict(key=repr(key), offset=cex['offset'], result=repr(res), expected=repr(exp))


if __name__ == '__main__':
    print('spec cases validated:', validate_spec())
    for r in check_ascending(os.environ.get('VERIF_REPO', '/repo')) + check_cols_to_slice(os.environ.get('VERIF_REPO', '/repo')) + check_inclusive(os.environ.get('VERIF_REPO', '/repo')):
        print(r)
