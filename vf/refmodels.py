"""Reference (oracle) models written over plain Python lists, and observation of containers."""


class Absent(Exception):
    pass


def obs_container(env, x):
    """Observation of a static-frame result: kind, labels, cells (and name)."""
    sf = env.sf
    if isinstance(x, sf.Frame):
        return ['F', env.obs(list(x.index.values)), env.obs(list(x.columns.values)),
                env.obs(x.values.tolist()) if x.shape[0] and x.shape[1] else [[] for _ in range(x.shape[0])]]
    if isinstance(x, sf.Series):
        return ['S', env.obs(list(x.index.values)), env.obs(x.values.tolist()), env.obs(x.name)]
    from static_frame.core.index_base import IndexBase
    if isinstance(x, IndexBase):
        return ['I', env.obs(list(x.values.tolist()))]
    return ['E', env.obs(x)]


def obs_frame_full(env, f):
    """Frame observation including per-column dtypes kinds and name (for functional-update checks)."""
    o = obs_container(env, f)
    o.append([dt.kind for dt in f._blocks._dtypes])
    o.append(env.obs(f.name))
    return o


def ref_slice_positions(key, n):
    """Positions of s[i:j:k] on a sequence of length n, written DECLARATIVELY from the language
    reference ("the items with index x = i + m*k such that 0 <= m < (j-i)/k", negative i/j relative to
    the end, out-of-range values clamped) and only with comparisons, so that symbolic i/j split per
    region.  Validated against CPython's list slicing on a grid (selftest/slice_ref.py) at every run."""
    i, j, k = key.start, key.stop, key.step
    if k is None:
        k = 1
    if k > 0:
        lo = 0 if i is None else (i + n if i < 0 else i)   # first candidate
        hi = n if j is None else (j + n if j < 0 else j)   # exclusive bound
        return [x for x in range(n) if x >= lo and x < hi and (x - max(lo, 0)) % k == 0]
    hi = n - 1 if i is None else (i + n if i < 0 else i)  # first candidate (from the right)
    if hi > n - 1:
        hi = n - 1
    lo = -1 if j is None else (j + n if j < 0 else j)      # exclusive lower bound
    if j is not None and lo < -1:
        lo = -1
    return [x for x in range(n - 1, -1, -1) if x <= hi and x > lo and (hi - x) % (-k) == 0]


def py_positions(key, n):
    """Positions selected on an axis of length n by a positional key, per Python/NumPy semantics.
    Returns (positions, is_multi); raises IndexError when an int or list entry is out of range."""
    if isinstance(key, slice):
        return ref_slice_positions(key, n), True
    if isinstance(key, list):
        if key and isinstance(key[0], bool):
            if len(key) != n:
                raise IndexError('boolean index did not match')
            return [i for i, b in enumerate(key) if b], True
        out = []
        for k in key:
            if k < -n or k >= n:
                raise IndexError('out of range')
            out.append(k + n if k < 0 else k)
        return out, True
    if key is None:
        return list(range(n)), True
    if key < -n or key >= n:
        raise IndexError('out of range')
    return [key + n if key < 0 else key], False


def ref_frame_select(rows, index, columns, rk, ck):
    """Reference result of Frame.iloc[rk, ck] on a list-of-rows model, in obs_container form."""
    rp, rmulti = py_positions(rk, len(index))
    cp, cmulti = py_positions(ck, len(columns))
    if not rmulti and not cmulti:
        return ['E', rows[rp[0]][cp[0]]]
    if not rmulti:
        return ['S', [columns[j] for j in cp], [rows[rp[0]][j] for j in cp], index[rp[0]]]
    if not cmulti:
        return ['S', [index[i] for i in rp], [rows[i][cp[0]] for i in rp], columns[cp[0]]]
    return ['F', [index[i] for i in rp], [columns[j] for j in cp], [[rows[i][j] for j in cp] for i in rp]]


# ---------------------------------------------------------------- missing-value fills (C14, C03)

M = 'NaN'   # missing marker in reference space


def ref_directional(line, forward, limit):
    """Fill each run of missing cells from the nearest preceding (forward) / following (backward)
    non-missing value, at most `limit` cells per run (0 = no limit)."""
    vals = list(line) if forward else list(line)[::-1]
    out = list(vals)
    last = M
    run = 0
    for i, v in enumerate(vals):
        if v == M:
            run += 1
            if last != M and (limit == 0 or run <= limit):
                out[i] = last
        else:
            last = v
            run = 0
    return out if forward else out[::-1]


def ref_sided(line, leading, value):
    vals = list(line) if leading else list(line)[::-1]
    out = list(vals)
    for i, v in enumerate(vals):
        if v == M:
            out[i] = value
        else:
            break
    return out if leading else out[::-1]


def by_axis(ref_rows, axis, fn):
    """Apply fn to every column (axis 0) or row (axis 1) of the reference."""
    nrows, ncols = len(ref_rows), len(ref_rows[0])
    if axis == 1:
        return [fn(list(r)) for r in ref_rows]
    cols = [fn([ref_rows[r][c] for r in range(nrows)]) for c in range(ncols)]
    return [[cols[c][r] for c in range(ncols)] for r in range(nrows)]


# ---------------------------------------------------------------- label <-> position coherence of a RESULT container

def coherent_labels(env, x):
    """True iff every index of a result container answers for its own labels: label i is found at position i, is a member,
    and the index length matches the data.  (A result whose values look right but whose index map was inherited from
    another container - a kept loc_is_iloc shortcut, a shared grow-only map - fails here.)"""
    sf = env.sf
    from static_frame.core.index_base import IndexBase
    try:
        from crosshair.tracers import is_tracing
        if is_tracing():
            return True      # under the tracer the result's length is symbolic: the walk below would enumerate it; the
                             # conditions that run concretely (rt.untraced) and every replay on the real library do it
    except ImportError:
        pass

    def ok(ix, n):
        if len(ix) != n:
            return False
        labels = [tuple(t) for t in ix] if ix.depth > 1 else ix.values.tolist()
        for i, lab in enumerate(labels):
            try:
                if ix.loc_to_iloc(lab) != i:
                    return False
            except Exception:  # noqa: BLE001
                return False
            if not (lab in ix):
                return False
        return True
    if isinstance(x, sf.Frame):
        return ok(x.index, x.shape[0]) and ok(x.columns, x.shape[1])
    if isinstance(x, sf.Series):
        return ok(x.index, len(x.values))
    if isinstance(x, IndexBase):
        return ok(x, len(x))
    return True
