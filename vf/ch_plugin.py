"""CrossHair plug-in (--extra_plugin): keeps slice positions symbolic and counts solver decisions.

1. slice.indices is C code: CrossHair would realise symbolic start/stop there (one path per concrete
   value).  It is replaced by CPython's documented algorithm (PySlice_AdjustIndices) in Python, so a
   symbolic slice splits per REGION (sign, relation to the length), not per value.
2. Every StateSpace.smt_fork / choose_possible decision is counted and dumped to $VF_STATS at exit
   (evidence: number of solver decisions = 'transitions').
CrossHair drops this module's globals after loading it, so helpers are bound as default arguments.
"""
import atexit
import json
import os

from crosshair import register_patch
from crosshair.statespace import StateSpace

_COUNTS = {'smt_fork': 0}


def _py_slice_indices(self, length, _slice=slice, _ValueError=ValueError, _TypeError=TypeError):
    start, stop, step = self.start, self.stop, self.step
    if step is None:
        step = 1
    if step == 0:
        raise _ValueError('slice step cannot be zero')
    if length < 0:
        raise _ValueError('length should not be negative')
    neg = step < 0
    if neg:
        lower, upper = -1, length - 1
    else:
        lower, upper = 0, length
    if start is None:
        start = upper if neg else lower
    else:
        if start < 0:
            start = start + length
            if start < lower:
                start = lower
        elif start > upper:
            start = upper
    if stop is None:
        stop = lower if neg else upper
    else:
        if stop < 0:
            stop = stop + length
            if stop < lower:
                stop = lower
        elif stop > upper:
            stop = upper
    return (start, stop, step)


register_patch(slice.indices, _py_slice_indices)

# 3. Formatting a symbolic int/bool (f-strings in error messages such as
#    f'duplicate key append attempted: {value}') makes CrossHair REALISE the value, which turns an
#    unbounded symbolic label into an endless enumeration of concrete labels.  Per the guidance
#    ("formatting and logging get empty bodies unless formatting is the subject") symbolic ints and
#    bools format as the placeholder '<sym>'; everything else formats as before.
import crosshair.core as _chcore
from crosshair.libimpl.builtinslib import SymbolicInt as _SymInt, SymbolicBool as _SymBool
from crosshair.tracers import NoTracing as _NoTracing

_orig_format = _chcore._PATCH_REGISTRATIONS.get(format)


def _format_no_realize(obj, format_spec='', _orig=_orig_format, _NT=_NoTracing, _types=(_SymInt, _SymBool), _type=type, _isinstance=isinstance):
    with _NT():
        sym = _isinstance(obj, _types)
    if sym:
        return '<sym>'
    return _orig(obj, format_spec)


if _orig_format is not None:
    _chcore._PATCH_REGISTRATIONS[format] = _format_no_realize

_orig_fork = StateSpace.smt_fork
_orig_choose = StateSpace.choose_possible


def _counting_fork(self, *a, _orig=_orig_fork, _counts=_COUNTS, **kw):
    _counts['smt_fork'] += 1
    return _orig(self, *a, **kw)


def _counting_choose(self, *a, _orig=_orig_choose, _counts=_COUNTS, **kw):
    _counts['smt_fork'] += 1
    return _orig(self, *a, **kw)


StateSpace.smt_fork = _counting_fork
StateSpace.choose_possible = _counting_choose


def _dump(_counts=_COUNTS, _os=os, _json=json):
    path = _os.environ.get('VF_STATS')
    if path:
        try:
            prev = {}
            if _os.path.exists(path):
                prev = _json.load(open(path))
            prev['smt_fork'] = _counts['smt_fork']
            _json.dump(prev, open(path, 'w'))
        except Exception:
            pass


atexit.register(_dump)


# 4. static-frame asks `hasattr(v, '__slots__')` to recognise its own containers among values
#    (prepare_iter_for_array).  CrossHair's proxy classes for int/bool/str define __slots__, so a
#    symbolic int would be taken for a container and the array would become dtype=object -- an artefact
#    of the proxy, not of the code.  hasattr on a symbolic value of a builtin type answers for that
#    builtin type for '__slots__' (only that name: the model itself probes '__ch_realize__').
from crosshair.util import CrossHairValue as _CHV

_orig_hasattr = _chcore._PATCH_REGISTRATIONS.get(hasattr)


def _hasattr_like_pytype(obj, name, _orig=_orig_hasattr, _NT=_NoTracing, _CHV=_CHV, _hasattr=hasattr, _isinstance=isinstance,
        _str=str, _builtin_types=(int, bool, str, float, bytes, tuple, list, dict, set, frozenset)):
    with _NT():
        if _isinstance(obj, _CHV) and _isinstance(name, _str) and name == '__slots__' and _hasattr(obj, '__ch_pytype__'):
            try:
                pt = obj.__ch_pytype__()
            except Exception:  # noqa: BLE001
                pt = None
            if pt in _builtin_types:
                return _hasattr(pt, name)
        if _orig is None:
            return _hasattr(obj, name)
    return _orig(obj, name)


_chcore._PATCH_REGISTRATIONS[hasattr] = _hasattr_like_pytype
