"""Check runner: regenerate conditions from the harness, validate them against the real library,
discharge them with CrossHair/z3, replay every counterexample on the unmodified library with real
NumPy, apply known findings, write evidence.  See DESIGN.md section 3."""
import ast
import concurrent.futures as cf
import json
import os
import random
import re
import shutil
import subprocess
import sys
import time

VERIF = os.path.dirname(os.path.dirname(os.path.abspath(__file__)))
PY = os.path.join(VERIF, '.venv', 'bin', 'python')
WORK = os.environ.get('VERIF_WORK') or os.path.join(VERIF, '.work')
# evidence describes /repo itself: a run against another tree (seeded-change rounds, development against a snapshot:
# VERIF_REPO) leaves /verif/evidence alone and writes next to its scratch files
EVIDENCE = (os.path.join(WORK, 'evidence') if os.environ.get('VERIF_REPO', '/repo').rstrip('/') != '/repo'
            else os.path.join(VERIF, 'evidence'))
EXIT_HARNESS_ERROR = 2

TEMPLATE = '''import sys
sys.path.insert(0, {verif!r})
from typing import Optional, List
from vf import rt as _rt
_rt.env(True)
_rt.harness({prop!r})


def check({sig}) -> bool:
    """
{pre}    post: {post}
    """
    return _rt.run({prop!r}, {cond!r}, dict({kw}))
'''


def gen_condition_file(prop, c, twin=False):
    d = os.path.join(WORK, prop)
    os.makedirs(d, exist_ok=True)
    from vf.cond import TYPES
    sig = ', '.join(f'{p}: {TYPES[k]}' for p, k in c.params)
    kw = ', '.join(f'{p}={p}' for p, _ in c.params)
    pre = ''.join(f'    pre: {e}\n' for e in c.pre_lines())
    src = TEMPLATE.format(verif=VERIF, prop=prop, cond=c.name, sig=sig, kw=kw, pre=pre,
            post='not _' if twin else '_')
    path = os.path.join(d, ('twin_' if twin else 'cond_') + c.name + '.py')
    with open(path, 'w') as f:
        f.write(src)
    return path


def parse_call_args(msg, names):
    """Extract arguments from CrossHair's '... when calling check(1, None, x=2)' message."""
    m = re.search(r'when calling check\((.*?)\)\s*(\(which returns.*)?$', msg.strip())
    if not m:
        return None
    call = 'f(' + m.group(1) + ')'
    try:
        node = ast.parse(call, mode='eval').body
        out = {n: ast.literal_eval(a) for n, a in zip(names, node.args)}
        out.update({k.arg: ast.literal_eval(k.value) for k in node.keywords})
        if set(out) != set(names):
            return None
        return out
    except Exception:  # noqa: BLE001
        return None


def run_crosshair(path, timeout, stats_path, names):
    env = dict(os.environ)
    env['VF_STATS'] = stats_path
    env['PYTHONHASHSEED'] = '0'
    env.pop('PYTHONPATH', None)
    cmd = [PY, '-m', 'crosshair', 'check', path, '--analysis_kind=PEP316', '--report_all',
           '--per_condition_timeout', str(timeout), '--per_path_timeout', str(max(10, timeout / 4)),
           '--extra_plugin', os.path.join(VERIF, 'vf', 'ch_plugin.py'), '--unblock', 'open']
    t0 = time.time()
    try:
        p = subprocess.run(cmd, capture_output=True, text=True, timeout=timeout * 2.5 + 60, env=env, cwd=WORK)
        out, err, rc = p.stdout, p.stderr, p.returncode
    except subprocess.TimeoutExpired as e:
        out = (e.stdout or b'').decode() if isinstance(e.stdout, bytes) else (e.stdout or '')
        err, rc = 'WALL-TIMEOUT', -9
    wall = time.time() - t0
    stats = {}
    if os.path.exists(stats_path):
        try:
            stats = json.load(open(stats_path))
        except Exception:  # noqa: BLE001
            pass
    verdict, msg, args = 'inconclusive', '', None
    for line in out.splitlines():
        m = re.match(r'^(.*?):(\d+): (error|info): (.*)$', line)
        if not m:
            continue
        kind, text = m.group(3), m.group(4)
        if kind == 'info' and text.startswith('Confirmed over all paths'):
            verdict, msg = 'confirmed', text
        elif kind == 'info':
            verdict, msg = 'inconclusive', text
        elif kind == 'error':
            args = parse_call_args(text, names)
            if 'ModelGap' in text:
                verdict, msg = 'inconclusive', 'model gap: ' + text[:300]
            elif args is None:
                verdict, msg = 'inconclusive', 'unparsed error: ' + text[:300]
            else:
                verdict, msg = 'counterexample', text[:400]
            break
    if verdict == 'inconclusive' and not msg:
        msg = ('rc=%s ' % rc) + (err.strip().splitlines()[-1][:300] if err.strip() else 'no verdict line')
    return dict(verdict=verdict, msg=msg, args=args, wall_s=round(wall, 2), paths=stats.get('paths', 0),
            smt_forks=stats.get('smt_fork', 0))


def child(mode, prop, payload_path):
    """Subprocess entry: mode 'model'/'real': evaluate conditions on concrete inputs."""
    sys.path.insert(0, VERIF)
    from vf import rt
    model = mode == 'model'
    payload = json.load(open(payload_path))
    h = rt.harness(prop) if False else None
    rt.env(model)
    h = rt.harness(prop)
    out = []
    entered = {}
    want = set()
    for item in payload:
        want.update(h.CONDS[item['cond']].functions)
    import threading

    def prof(frame, event, arg):
        if event == 'call':
            co = frame.f_code
            q = getattr(co, 'co_qualname', co.co_name)
            if q in want or co.co_name in want:
                entered[q] = entered.get(q, 0) + 1
                entered[co.co_name] = entered.get(co.co_name, 0) + 1
    for item in payload:
        if model and item.get('profile'):
            sys.setprofile(prof)
        try:
            args = dict(item['args'])
            got, exp = rt.run_pair(prop, item['cond'], args, model)
        finally:
            sys.setprofile(None)
        out.append(dict(cond=item['cond'], args=item['args'], got=got, exp=exp))
    print('@@' + json.dumps(dict(results=out, entered=entered), default=repr))


def run_child(mode, prop, payload):
    os.makedirs(os.path.join(WORK, prop), exist_ok=True)
    pp = os.path.join(WORK, prop, f'payload_{mode}_{os.getpid()}_{random.randrange(1 << 30)}.json')
    json.dump(payload, open(pp, 'w'))
    env = dict(os.environ)
    env.pop('PYTHONPATH', None)
    p = subprocess.run([PY, '-c', f'import sys; sys.path.insert(0, {VERIF!r}); from vf import runner; '
                        f'runner.child({mode!r}, {prop!r}, {pp!r})'],
                       capture_output=True, text=True, cwd=WORK, env=env)
    os.unlink(pp)
    lines = [l for l in p.stdout.splitlines() if l.startswith('@@')]
    if not lines:
        raise RuntimeError(f'child {mode} failed:\n{p.stdout[-1500:]}\n{p.stderr[-3000:]}')
    return json.loads(lines[-1][2:])


def jnorm(v):
    return json.loads(json.dumps(v, default=repr))


def same(a, b):
    """Equality of two JSON-normalised observations that keeps True/False apart from 1/0 (a Boolean
    silently turned into a number is a difference for these checks)."""
    if isinstance(a, list) and isinstance(b, list):
        return len(a) == len(b) and all(same(x, y) for x, y in zip(a, b))
    if isinstance(a, dict) and isinstance(b, dict):
        return a.keys() == b.keys() and all(same(a[k], b[k]) for k in a)
    if isinstance(a, bool) != isinstance(b, bool):
        return False
    if isinstance(a, (list, dict)) or isinstance(b, (list, dict)):
        return False
    return a == b


def same_model_real(a, b):
    """Model observation a against real observation b: a cell the MODEL reports as POISON (content of np.empty that was
    never written, or a cast NumPy leaves undefined) stands for arbitrary memory, so the real library may show anything
    there; everything else must agree exactly."""
    if 'POISON' in json.dumps(a, default=repr):
        return True     # the result depends on uninitialised memory (also through values derived from it): nothing to agree on
    return same(a, b)


def load_known(prop):
    path = os.path.join(VERIF, 'known_findings.json')
    if not os.path.exists(path):
        return []
    data = json.load(open(path))
    return [k for k in data.get('findings', []) if k['property'] == prop]


def diff_paths(a, b, prefix=()):
    """Index paths at which two nested list structures differ (used by known-finding predicates to
    pin a finding to the exact observation that is wrong)."""
    if isinstance(a, list) and isinstance(b, list) and len(a) == len(b):
        out = []
        for i, (x, y) in enumerate(zip(a, b)):
            out += diff_paths(x, y, prefix + (i,))
        return out
    return [] if a == b and type(a) is type(b) else [prefix]


def match_known(known, cond, args, got, exp):
    got, exp = jnorm(got), jnorm(exp)
    ns = dict(cond=cond, args=args, got=got, exp=exp, diff=diff_paths(got, exp) if exp is not None else None, **(args or {}))
    g = {'__builtins__': {'len': len, 'abs': abs, 'any': any, 'all': all, 'isinstance': isinstance, 'str': str,
                          'int': int, 'min': min, 'max': max, 'list': list, 'tuple': tuple, 'bool': bool, 'sorted': sorted,
                          'range': range, 'enumerate': enumerate, 'zip': zip, 'set': set, 'sum': sum}}
    g.update(ns)   # one namespace: comprehensions inside the predicate resolve names in globals
    for k in known:
        try:
            if eval(k['match'], g):  # noqa: S307
                return k
        except Exception:  # noqa: BLE001
            continue
    return None


def main(prop, tier='quick', seed=0, replay=None, only=None, jobs=None):
    t_start = time.time()
    sys.path.insert(0, VERIF)
    os.makedirs(WORK, exist_ok=True)
    wd = os.path.join(WORK, prop)
    shutil.rmtree(wd, ignore_errors=True)
    os.makedirs(wd)
    import importlib
    h = importlib.import_module('harness.' + prop)
    conds = [c for c in h.CONDS.values() if tier == 'thorough' or c.tier == 'quick']
    if only:
        conds = [c for c in conds if re.search(only, c.name)]
    jobs = jobs or int(os.environ.get('VERIF_JOBS', '14'))
    known = load_known(prop)

    if replay:
        item = json.load(open(replay))
        r = run_child('real', prop, [dict(cond=item['cond'], args=item['args'])])['results'][0]
        bad = r['exp'] is None or not same(jnorm(r['got']), jnorm(r['exp']))
        print(json.dumps(r, default=repr))
        print('REPRODUCED' if bad else 'NOT-REPRODUCED')
        return 1 if bad else 0

    # ---- 2a. stubs vs real libraries (slice reference, SymList, automap model) -------------------
    try:
        from selftest import quick as _quick
        selftest_counts = _quick.run_all()
    except Exception as ex:  # noqa: BLE001
        print('HARNESS-ERROR selftest failed:', repr(ex)[:500])
        write_evidence(prop, tier, seed, h, conds, [], [], [], 0, time.time() - t_start, harness_errors=['selftest: ' + repr(ex)[:300]])
        return EXIT_HARNESS_ERROR

    # ---- 2. self-validation: concrete traces in both worlds, reachability --------------------
    rng = random.Random(seed)
    n_tr = int(getattr(h, 'TRACES_QUICK', 12)) if tier == 'quick' else int(getattr(h, 'TRACES_THOROUGH', 40))
    payload = []
    for c in conds:
        for i in range(n_tr):
            payload.append(dict(cond=c.name, args=c.sample(rng), profile=True))
    with cf.ThreadPoolExecutor(2) as ex:
        fm = ex.submit(run_child, 'model', prop, payload)
        fr = ex.submit(run_child, 'real', prop, payload)
        rm, rr = fm.result(), fr.result()
    harness_errors = []
    trace_violations = []
    traces_ok = 0
    cond_by_name = {c.name: c for c in conds}
    trace_gaps = 0
    for a, b in zip(rm['results'], rr['results']):
        if isinstance(a['got'], list) and a['got'] and a['got'][0] == 'GAP':
            # the model lacks something this input needs (the solver query for the condition will be inconclusive): the
            # model/real comparison is skipped, but the REAL library's answer on this sample is still judged
            trace_gaps += 1
            if b['exp'] is None or not same(jnorm(b['got']), jnorm(b['exp'])):
                if not (isinstance(b['got'], list) and b['got'] and b['got'][0] == 'GAP'):
                    trace_violations.append(dict(cond=b['cond'], args=b['args'], got=b['got'], exp=b['exp'], source='trace'))
            continue
        if not same_model_real(jnorm(a['got']), jnorm(b['got'])) or not same(jnorm(a['exp']), jnorm(b['exp'])):
            if (same(jnorm(a['exp']), jnorm(b['exp'])) and b['exp'] is not None and not same(jnorm(b['got']), jnorm(b['exp']))
                    and not (isinstance(b['got'], list) and b['got'] and b['got'][0] == 'GAP')):
                # the oracle is the same in both worlds and the REAL library's answer on this concrete input differs from
                # it: that is a violation shown on the real code whatever the model says (e.g. a result that depends on the
                # real scheduler's completion order, which no model tape predicts)
                trace_violations.append(dict(cond=b['cond'], args=b['args'], got=b['got'], exp=b['exp'], source='trace'))
                continue
            if (cond_by_name[a['cond']].tape and same(jnorm(a['exp']), jnorm(b['exp'])) and same(jnorm(b['got']), jnorm(b['exp']))
                    and not same(jnorm(a['got']), jnorm(a['exp']))):
                # schedule-dependent: the model's tape chose a completion order under which the oracle fails, the real pool
                # happened not to take it.  Not a model error; the solver stage decides the condition and replays its
                # counterexample (with the tape turned into per-task delays) on the real library.
                continue
            harness_errors.append(f"model/real disagree: cond={a['cond']} args={a['args']} model={a['got']!r} real={b['got']!r}")
            continue
        traces_ok += 1
        if b['exp'] is None or not same(jnorm(b['got']), jnorm(b['exp'])):
            trace_violations.append(dict(cond=b['cond'], args=b['args'], got=b['got'], exp=b['exp'], source='trace'))
    entered = rm['entered']
    unreached = []
    violated_conds = {v['cond'] for v in trace_violations}
    for c in conds:
        if c.name in violated_conds:
            continue   # the body stops early on a real violation: reachability is judged on clean runs only
        for f in c.functions:
            if not entered.get(f) and not entered.get(f.split('.')[-1]):
                unreached.append(f'{c.name}: {f}')
    if unreached and not only:   # (--only is a development filter: the witness is judged on the whole property's samples)
        harness_errors.append('reachability witness failed: ' + '; '.join(unreached[:10]))
    if harness_errors:
        for e in harness_errors[:20]:
            print('HARNESS-ERROR', e)
        write_evidence(prop, tier, seed, h, conds, [], [], [], traces_ok, time.time() - t_start,
                harness_errors=harness_errors)
        return EXIT_HARNESS_ERROR

    # ---- 3. discharge --------------------------------------------------------------------------
    default_to = 90 if tier == 'quick' else 600
    results = {}
    twins = {}

    def job(c):
        path = gen_condition_file(prop, c)
        return c.name, run_crosshair(path, c.timeout or default_to, os.path.join(wd, c.name + '.stats'), [p for p, _ in c.params])

    def twin_job(c):
        path = gen_condition_file(prop, c, twin=True)
        return c.name, run_crosshair(path, 60, os.path.join(wd, c.name + '.twin.stats'), [p for p, _ in c.params])
    twin_conds = conds if tier == 'thorough' else conds[::max(1, len(conds) // 4)][:6]
    with cf.ThreadPoolExecutor(jobs) as ex:
        futs = [ex.submit(job, c) for c in conds]
        tfuts = [ex.submit(twin_job, c) for c in twin_conds]
        for f in futs:
            name, r = f.result()
            results[name] = r
        for f in tfuts:
            name, r = f.result()
            twins[name] = r
    for name, t in twins.items():
        if t['verdict'] != 'counterexample':
            # the negated postcondition was not refuted: the original may be vacuous
            if results[name]['verdict'] == 'confirmed':
                results[name]['verdict'] = 'inconclusive'
                results[name]['msg'] = 'vacuity twin not refuted: ' + t['msg']

    # ---- 3b. extra solver queries supplied by the harness (E3: AST -> SMT on integer kernels) ---------
    extra_cex = []
    if hasattr(h, 'extra_queries') and not only:
        try:
            for rec in h.extra_queries(tier):
                r = dict(verdict=rec['verdict'], msg=rec.get('msg', ''), args=rec.get('args'), wall_s=rec.get('wall_s', 0.0),
                         paths=rec.get('paths', 0), smt_forks=rec.get('paths', 0), extra=True, bounds=rec.get('bounds', ''))
                results[rec['cond']] = r
                if rec['verdict'] == 'counterexample':
                    bad, detail = h.extra_replay(rec)
                    if bad:
                        extra_cex.append(dict(cond=rec['cond'], args=rec['args'], got=detail, exp=rec.get('expect', 'same positions as the key, ascending step'), source='solver-e3', reproduced=True))
                    else:
                        r['verdict'] = 'inconclusive'
                        r['msg'] = 'spurious counterexample (does not reproduce on the real function): ' + r['msg']
        except Exception as ex:  # noqa: BLE001
            print('HARNESS-ERROR extra queries failed:', repr(ex)[:300])
            write_evidence(prop, tier, seed, h, conds, results, [], twins, traces_ok, time.time() - t_start, harness_errors=['extra queries: ' + repr(ex)[:300]])
            return EXIT_HARNESS_ERROR

    # ---- 5. replay counterexamples on the real library -----------------------------------------
    cex = [dict(cond=n, args=r['args'], source='solver') for n, r in results.items() if r['verdict'] == 'counterexample' and not r.get('extra')]
    replayed = []
    if cex:
        rr2 = run_child('real', prop, [dict(cond=x['cond'], args=x['args']) for x in cex])['results']
        for x, r in zip(cex, rr2):
            bad = r['exp'] is None or not same(jnorm(r['got']), jnorm(r['exp']))
            x.update(got=r['got'], exp=r['exp'], reproduced=bad)
            replayed.append(x)
            if not bad:
                results[x['cond']]['verdict'] = 'inconclusive'
                results[x['cond']]['msg'] = 'spurious counterexample (does not reproduce on real NumPy): ' + results[x['cond']]['msg']
    violations = [x for x in replayed if x['reproduced']] + extra_cex + trace_violations
    exit_code = 0
    reported = []
    seen_known = {}
    for i, v in enumerate(violations):
        k = match_known(known, v['cond'], v['args'], v.get('got'), v.get('exp'))
        rp = os.path.join(wd, f'replay_{i}.json')
        json.dump(dict(cond=v['cond'], args=v['args']), open(rp, 'w'))
        v['replay'] = rp
        if k is not None:
            v['known'] = k['id']
            if k['id'] not in seen_known:
                seen_known[k['id']] = v
                print(f"KNOWN-FINDING: property={prop} {k['id']}: {k['what']} (e.g. cond={v['cond']} args={v['args']})")
        else:
            reported.append(v)
            print(f"VIOLATION property={prop} replay={rp}")
            print(f"  cond={v['cond']} args={v['args']} observed={v.get('got')!r} expected={v.get('exp')!r} source={v['source']}")
            exit_code = 1
    write_evidence(prop, tier, seed, h, conds, results, violations, twins, traces_ok, time.time() - t_start,
            trace_gaps=trace_gaps, unlisted=len(reported))
    n_conf = sum(1 for r in results.values() if r['verdict'] == 'confirmed')
    n_inc = sum(1 for r in results.values() if r['verdict'] == 'inconclusive')
    print(f'{prop} tier={tier}: queries={len(results)} confirmed={n_conf} inconclusive={n_inc} '
          f'counterexamples={len(cex)} reproduced={len([x for x in replayed if x["reproduced"]])} '
          f'trace_violations={len(trace_violations)} known={len(seen_known)} unlisted={len(reported)} '
          f'traces_validated={traces_ok} wall={time.time() - t_start:.0f}s')
    for n, r in sorted(results.items()):
        if r['verdict'] != 'confirmed':
            print(f"  {r['verdict']:14s} {n}: {r['msg'][:200]}")
    return exit_code


def write_evidence(prop, tier, seed, h, conds, results, violations, twins, traces_ok, wall,
        harness_errors=None, trace_gaps=0, unlisted=0):
    os.makedirs(EVIDENCE, exist_ok=True)
    results = results or {}
    paths = sum(r.get('paths', 0) for r in results.values())
    forks = sum(r.get('smt_forks', 0) for r in results.values())
    samples = []
    for c in conds[:3]:
        r = results.get(c.name, {})
        samples.append(dict(condition=c.name, symbolic_parameters=[f'{p}:{k}' for p, k in c.params],
                preconditions=c.pre_lines(), bounds=c.bounds, verdict=r.get('verdict'), paths=r.get('paths'),
                solver_cpu_wall_s=r.get('wall_s')))
    for v in (violations or [])[:10]:
        samples.append(dict(counterexample=dict(cond=v['cond'], args=v['args'], observed=v.get('got'),
                expected=v.get('exp'), source=v.get('source'), known=v.get('known'))))
    functions = sorted({f for c in conds for f in c.functions})
    ev = dict(
        property_id=prop, tier=tier, seed=int(seed), level='model_checking',
        coverage=dict(
            states=max(paths, 1) if results else 1, transitions=max(forks, 1) if results else 1,
            traces_validated_against_impl=traces_ok, samples=samples or [dict(note='no conditions ran')],
            queries=len(results),
            discharged=sum(1 for r in results.values() if r['verdict'] == 'confirmed'),
            inconclusive=[dict(cond=n, why=r['msg'][:300]) for n, r in results.items() if r['verdict'] == 'inconclusive'],
            counterexamples=sum(1 for r in results.values() if r['verdict'] == 'counterexample'),
            vacuity_twins_refuted=sum(1 for t in (twins or {}).values() if t['verdict'] == 'counterexample'),
            vacuity_twins_run=len(twins or {}),
            functions_encoded=functions,
            per_query=[dict(cond=c.name, bounds=c.bounds, route=c.route, verdict=results.get(c.name, {}).get('verdict'),
                paths=results.get(c.name, {}).get('paths'), smt_forks=results.get(c.name, {}).get('smt_forks'),
                wall_s=results.get(c.name, {}).get('wall_s')) for c in conds] + [
                dict(cond=n, bounds=r.get('bounds'), route='AST -> SMT (vf/e3.py), z3 API and z3 4.8.12 binary', verdict=r['verdict'], paths=r.get('paths'))
                for n, r in results.items() if r.get('extra')],
            solver_time_s=round(sum(r.get('wall_s', 0) for r in results.values()), 1),
            explanation=('states = execution paths of the real static-frame code explored symbolically by CrossHair '
                '(counted at harness-body entry); transitions = SMT fork decisions (z3 queries) taken on those paths; '
                'a query counts as discharged only on "Confirmed over all paths".'),
            outside=getattr(h, 'OUTSIDE', ''),
            trace_gaps=trace_gaps,
            harness_errors=harness_errors or [],
        ),
        assumptions=list(getattr(h, 'ASSUMPTIONS', [])) + [
            'NumPy and automap are replaced by the contract models in vf/npmodel (validated against the real libraries by '
            'selftest and by per-condition trace validation); numeric cells range over Z u {NaN}; no int64 wrap-around',
            'CrossHair 0.0.110 symbolic semantics of Python builtins, z3 4.x',
        ],
        wall_s=round(wall, 1), violations=int(unlisted),
    )
    json.dump(ev, open(os.path.join(EVIDENCE, prop + '.json'), 'w'), indent=1, default=repr)
