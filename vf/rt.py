"""Run-time support shared by generated condition modules, trace validation and replay."""
import atexit
import importlib
import json
import os
import sys

VERIF = os.path.dirname(os.path.dirname(os.path.abspath(__file__)))
if VERIF not in sys.path:
    sys.path.insert(0, VERIF)

from vf import world  # noqa: E402

_PATHS = {'n': 0}


def _dump_paths():
    path = os.environ.get('VF_STATS')
    if path:
        try:
            prev = {}
            if os.path.exists(path):
                prev = json.load(open(path))
            prev['paths'] = _PATHS['n']
            json.dump(prev, open(path, 'w'))
        except Exception:
            pass


atexit.register(_dump_paths)


class Env:
    """What a harness body receives: the loaded static_frame package, the array namespace of the
    world it runs in, the NaN object of that world, and helpers."""

    def __init__(self, model):
        self.model = model
        self.sf = world.load(model)
        self.xp = world.xp()
        self.nan = self.xp.nan
        if model:
            from vf.npmodel import nondet, ModelGap, POISON
            self.nondet = nondet
            self.ModelGap = ModelGap
            self.POISON = POISON
        else:
            self.nondet = None
            self.POISON = object()

            class _NoGap(BaseException):
                pass
            self.ModelGap = _NoGap

    # ---- array factory -------------------------------------------------------------
    def array(self, cells, dtype=None, writeable=False):
        """Build a 1-D/2-D array from (possibly symbolic) cells with an explicit dtype."""
        if self.model:
            from vf.npmodel.array import ndarray, as_dtype
            dt = as_dtype(dtype) if dtype is not None else None
            if cells and isinstance(cells[0], (list, tuple)):
                flat = [c for r in cells for c in r]
                shape = (len(cells), len(cells[0]))
            else:
                flat = list(cells)
                shape = (len(flat),)
            if dt is None:
                from vf.npmodel.array import infer_dtype
                dt = infer_dtype(flat)
            from vf.npmodel.cells import conc
            sym = False
            for c in flat:
                if not conc(c):
                    sym = True
                    break
            a = ndarray._from_cells(flat, shape, dt, sym=sym)
        else:
            import numpy as np
            a = np.array(cells, dtype=dtype)
        a.flags.writeable = writeable
        return a

    # ---- observation ---------------------------------------------------------------
    def obs(self, v):
        """Normalise a value coming out of static-frame into plain Python data that can be compared
        across the model world and the real world: arrays -> nested lists, NaN -> 'NaN', numpy
        scalars -> Python scalars."""
        return observe(v, self)


def observe(v, env):
    import numpy as real_np
    if v is None or isinstance(v, str):
        return v
    if env.model:
        from vf.npmodel import ndarray as M
        from vf.npmodel.cells import BoolScalar, POISON
        from vf.npmodel.funcs import Token
        if type(v) is BoolScalar:
            return v.v
        if v is POISON:
            return 'POISON'
        if isinstance(v, M):
            return observe(v.tolist(), env)
        if isinstance(v, Token):
            return ('Token',) + tuple(observe(x, env) for x in v.key())
    if isinstance(v, bool):
        return v
    if isinstance(v, float):
        if v != v:
            return 'NaN'
        if v == int(v) and abs(v) < 2 ** 53:
            return int(v)
        return v
    if isinstance(v, int):
        return v
    if isinstance(v, real_np.ndarray):
        return observe(v.tolist(), env)
    if isinstance(v, real_np.generic):
        if isinstance(v, real_np.bool_):
            return bool(v)
        if isinstance(v, real_np.integer):
            return int(v)
        if isinstance(v, real_np.floating):
            return observe(float(v), env)
        if isinstance(v, real_np.str_):
            return str(v)
        if isinstance(v, (real_np.datetime64, real_np.timedelta64)):
            return str(v)
        return repr(v)
    if isinstance(v, real_np.dtype):
        return 'dtype:' + v.str
    if isinstance(v, (list, tuple)):
        return [observe(x, env) for x in v]
    if isinstance(v, dict):
        return {k: observe(x, env) for k, x in v.items()}
    if isinstance(v, type):
        return 'class:' + v.__name__
    return v


_ENVS = {}
_HARNESS = {}
_CACHE = {}


def untraced(fn):
    """Run fn() outside CrossHair's tracer (fast).  ONLY for code whose inputs are all concrete, e.g.
    building the mutable concrete pre-state of a history on every path."""
    try:
        from crosshair.tracers import NoTracing, is_tracing
        tracing = is_tracing()
    except Exception:  # noqa: BLE001
        tracing = False
    if tracing:
        with NoTracing():
            return fn()
    return fn()


def concrete(key, fn):
    """Build (once per process) a value from CONCRETE inputs only, outside CrossHair's tracer.
    Used for the fixed pre-state of a condition (an immutable container built from constants): it
    is identical on every path, so re-executing its construction symbolically buys nothing.
    Never use for anything that depends on a symbolic parameter."""
    if key in _CACHE:
        return _CACHE[key]
    try:
        from crosshair.tracers import NoTracing, is_tracing
        tracing = is_tracing()
    except Exception:  # noqa: BLE001
        tracing = False
    if tracing:
        with NoTracing():
            v = fn()
    else:
        v = fn()
    _CACHE[key] = v
    return v


def env(model=True):
    if model not in _ENVS:
        _ENVS[model] = Env(model)
    return _ENVS[model]


def harness(prop):
    if prop not in _HARNESS:
        _HARNESS[prop] = importlib.import_module('harness.' + prop)
    return _HARNESS[prop]


def deep_eq(a, b):
    """Structural equality that keeps symbolic comparisons inside the solver where possible."""
    if isinstance(a, (list, tuple)) and isinstance(b, (list, tuple)):
        if len(a) != len(b):
            return False
        for x, y in zip(a, b):
            if not deep_eq(x, y):
                return False
        return True
    if isinstance(a, (list, tuple)) or isinstance(b, (list, tuple)):
        return False
    if isinstance(a, dict) and isinstance(b, dict):
        if set(a) != set(b):
            return False
        return all(deep_eq(a[k], b[k]) for k in a)
    if isinstance(a, bool) != isinstance(b, bool):
        # bool vs int: distinguish True from 1 (dtype-sensitive observations)
        return False
    if type(a) is str or type(b) is str:
        if isinstance(a, str) and isinstance(b, str):
            return a == b
        return False
    if a is None or b is None:
        return a is b
    r = a == b
    return bool(r)


def run(prop, cond, args, model=True):
    """Execute condition `cond` of property harness `prop`; returns True iff observed == expected."""
    _PATHS['n'] += 1
    e = env(model)
    c = harness(prop).CONDS[cond]
    try:
        got, exp = c.body(e, **args, **c.fixed)
    except Exception as _ex:  # noqa: BLE001
        if os.environ.get('VF_DEBUG'):
            import traceback
            sys.stderr.write('VF_DEBUG exception in body: ' + ''.join(traceback.format_exception_only(type(_ex), _ex)) + ''.join(traceback.format_tb(_ex.__traceback__)[-4:]))
        # an exception the harness did not anticipate: report the inputs as a counterexample (the
        # replay on the real library decides whether it is genuine); ModelGap is a BaseException
        # and propagates (inconclusive)
        return False
    ok = deep_eq(got, exp)
    if not ok and os.environ.get('VF_DEBUG'):
        try:
            from crosshair.core import deep_realize
            from crosshair.tracers import NoTracing
            g, x = deep_realize(got), deep_realize(exp)
            with NoTracing():
                sys.stderr.write('VF_DEBUG got=%r\nVF_DEBUG exp=%r\n' % (g, x))
        except Exception as ex:  # noqa: BLE001
            sys.stderr.write('VF_DEBUG failed: %r\n' % (ex,))
    return ok


def run_pair(prop, cond, args, model):
    """-> (observed, expected) with exceptions captured, for trace validation and replay."""
    e = env(model)
    c = harness(prop).CONDS[cond]
    try:
        got, exp = c.body(e, **args, **c.fixed)
    except e.ModelGap as ex:
        return ('GAP', str(ex)), None
    except Exception as ex:  # noqa: BLE001
        return ('UNEXPECTED-EXCEPTION', type(ex).__name__), None
    return got, exp


def slice_nonempty(start, stop, step, n):
    """Usable inside PEP316 preconditions: does slice(start, stop, step) select anything on length n?"""
    from vf.refmodels import ref_slice_positions
    return len(ref_slice_positions(slice(start, stop, step), n)) > 0
