"""vf.npmodel: a pure-Python contract model of the NumPy subset static-frame uses.

It is bound in place of the `numpy` module while static_frame is imported (vf.world), so that every
`np.<name>` in the real static-frame source resolves here.  Names that are types, dtypes, scalar
constructors or constants pass through to the real NumPy (they are concrete-only); functions that are
not modelled raise ModelGap when called.
"""
import numpy as _np

from .cells import NAN, POISON, ModelGap, is_nan, norm_cell
from .array import ndarray, is_symbolic, cint, py_slice_indices
from . import funcs as _funcs
from . import nondet
from .funcs import *  # noqa: F401,F403
from .funcs import all, any, sum, min, max, round, Token  # noqa: F401,A004

nan = NAN
NaN = NAN
inf = _np.inf
newaxis = None
__version__ = _np.__version__

_PASS = {
    # types / abstract scalar classes / dtype machinery (concrete only)
    'dtype', 'generic', 'number', 'integer', 'signedinteger', 'unsignedinteger', 'inexact', 'floating',
    'complexfloating', 'flexible', 'character', 'bool_', 'bool', 'int8', 'int16', 'int32', 'int64',
    'uint8', 'uint16', 'uint32', 'uint64', 'intp', 'uintp', 'float16', 'float32', 'float64', 'longdouble',
    'float128', 'complex64', 'complex128', 'clongdouble', 'complex256', 'str_', 'bytes_', 'object_',
    'void', 'datetime64', 'timedelta64', 'datetime_data', 'iinfo', 'finfo', 'True_', 'False_',
    'issubdtype', 'promote_types', 'min_scalar_type', 'exceptions', 'errstate', 'seterr', 'geterr',
    'busday_count', 'is_busday', 'pi', 'e',
}


class _GapNamespace:
    def __init__(self, name):
        self._name = name

    def __getattr__(self, attr):
        def f(*a, **kw):
            raise ModelGap(f'np.{self._name}.{attr}')
        f.__name__ = attr
        return f


char = _GapNamespace('char')
random = _GapNamespace('random')
rec = _GapNamespace('rec')
linalg = _GapNamespace('linalg')


def __getattr__(name):
    if name in _PASS:
        return getattr(_np, name)
    if name.startswith('__'):
        raise AttributeError(name)
    real = getattr(_np, name)  # AttributeError for names NumPy itself does not have (e.g. in1d)
    if isinstance(real, type) or not callable(real):
        return real

    def gap(*a, **kw):
        raise ModelGap('np.' + name)
    gap.__name__ = name
    return gap
