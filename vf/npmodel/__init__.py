"""vf.npmodel: a pure-Python contract model of the NumPy subset static-frame uses.

It is bound in place of the `numpy` module while static_frame is imported (vf.world), so that every
`np.<name>` in the real static-frame source resolves here.  Names that are types, dtypes, scalar
constructors or constants pass through to the real NumPy (they are concrete-only); functions that are
not modelled raise ModelGap when called.
"""
import numpy as _np

from .cells import NAN, POISON, ModelGap, is_nan, norm_cell
from .array import ndarray, is_symbolic, cint, py_slice_indices
from . import funcs as _funcs
from . import nondet
from .funcs import *  # noqa: F401,F403
from .funcs import all, any, sum, min, max, round, Token  # noqa: F401,A004

# ---- concrete fast path: wrap array methods and module functions (see cells.fast)
import inspect as _inspect
import types as _types
import sys as _sys
_array = _sys.modules[__name__ + '.array']
from .cells import fast as _fast

for _name in ('__getitem__', '__setitem__', 'copy', 'astype', 'tolist', 'reshape', 'flatten', 'ravel', 'transpose', 'all', 'any',
              'sum', 'min', 'max', 'prod', 'cumsum', 'argmin', 'argmax', 'nonzero', 'argsort', 'sort', 'repeat', '__invert__',
              '__neg__', '__abs__', '__pos__', 'item', 'fill', '__contains__', '_inplace'):
    setattr(ndarray, _name, _fast(getattr(ndarray, _name)))
_array._binop = _fast(_array._binop)
_funcs._binop = _array._binop
for _name, _obj in list(vars(_funcs).items()):
    if (isinstance(_obj, _types.FunctionType) and not _name.startswith('_') and _obj.__module__ == _funcs.__name__
            and not _inspect.isgeneratorfunction(_obj)):
        _w = _fast(_obj)
        setattr(_funcs, _name, _w)
        globals()[_name] = _w

nan = NAN
NaN = NAN
inf = _np.inf
newaxis = None
__version__ = _np.__version__

_PASS = {
    # types / abstract scalar classes / dtype machinery (concrete only)
    'dtype', 'generic', 'number', 'integer', 'signedinteger', 'unsignedinteger', 'inexact', 'floating',
    'complexfloating', 'flexible', 'character', 'bool_', 'bool', 'int8', 'int16', 'int32', 'int64',
    'uint8', 'uint16', 'uint32', 'uint64', 'intp', 'uintp', 'float16', 'float32', 'float64', 'longdouble',
    'float128', 'complex64', 'complex128', 'clongdouble', 'complex256', 'str_', 'bytes_', 'object_',
    'void', 'datetime64', 'timedelta64', 'datetime_data', 'iinfo', 'finfo', 'True_', 'False_',
    'issubdtype', 'promote_types', 'min_scalar_type', 'exceptions', 'errstate', 'seterr', 'geterr',
    'busday_count', 'is_busday', 'pi', 'e',
}


class _GapNamespace:
    def __init__(self, name):
        self._name = name

    def __getattr__(self, attr):
        def f(*a, **kw):
            raise ModelGap(f'np.{self._name}.{attr}')
        f.__name__ = attr
        return f


char = _GapNamespace('char')
random = _GapNamespace('random')
rec = _GapNamespace('rec')
linalg = _GapNamespace('linalg')


def __getattr__(name):
    if name in _PASS:
        return getattr(_np, name)
    if name.startswith('__'):
        raise AttributeError(name)
    real = getattr(_np, name)  # AttributeError for names NumPy itself does not have (e.g. in1d)
    if isinstance(real, type) or not callable(real):
        return real

    def gap(*a, **kw):
        raise ModelGap('np.' + name)
    gap.__name__ = name
    return gap
