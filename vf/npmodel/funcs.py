"""Module-level functions of the NumPy contract model (the subset static-frame calls).

Each function states the sentence of the NumPy reference it encodes.  Where NumPy does not promise
an answer (order of equal keys under a non-stable sort kind) the answer is taken from `nondet`.
"""
import numpy as _np

from .cells import NAN, POISON, ModelGap, is_nan, norm_cell, cell_kind, BoolScalar
from .array import (ndarray, as_dtype, asarray_seq, cast_cell, infer_dtype, scalar_dtype, cint,
        is_symbolic, _broadcast_flat, _broadcast_shapes, _prod, _binop, _not, _str_width,
        str_dtype, cell_strlen, DT_BOOL, DT_INT, DT_FLOAT, DT_OBJECT, _size_str_dtype)
from .cells import num_eq, num_lt
from .array import _mark, to_real, from_real
from .cells import conc
from . import nondet

_builtin_all, _builtin_any, _builtin_sum, _builtin_min, _builtin_max = all, any, sum, min, max
_builtin_round = round


def _shape_arg(shape):
    if isinstance(shape, (int, _np.integer)):
        return (cint(shape, 0, 1 << 20, 'shape'),)
    return tuple(cint(s, 0, 1 << 20, 'shape') for s in shape)


# -------------------------------------------------------------------------- creation

def array(object, dtype=None, *, copy=True, order='K', subok=False, ndmin=0, **kw):  # noqa: A002
    """np.array: a NEW array (copy) from array-like input; dtype inferred as the minimal type that
    can hold all objects when not given."""
    if ndmin:
        raise ModelGap('np.array ndmin')
    return asarray_seq(object, dtype)


def asarray(a, dtype=None, **kw):
    if isinstance(a, ndarray) and (dtype is None or as_dtype(dtype) == a._dtype):
        return a
    return asarray_seq(a, dtype)


def empty(shape, dtype=float, order='C', **kw):
    """np.empty: array of given shape and type WITHOUT initialising entries; object arrays are
    initialised to None."""
    shape = _shape_arg(shape)
    dt = as_dtype(dtype)
    fill = None if dt.kind == 'O' else POISON
    return ndarray._from_cells([fill] * _prod(shape), shape, dt)


def full(shape, fill_value, dtype=None, order='C', **kw):
    """np.full: new array of given shape filled with fill_value; dtype defaults to
    np.array(fill_value).dtype."""
    shape = _shape_arg(shape)
    if isinstance(fill_value, ndarray):
        if fill_value.ndim != 0 and fill_value.size != 1:
            dt = fill_value._dtype if dtype is None else as_dtype(dtype)
            out = empty(shape, dt)
            out[...] = fill_value if False else fill_value
            return out
        fill_value = fill_value._cells()[0]
    v = norm_cell(fill_value)
    if dtype is None:
        if isinstance(v, (tuple, list)):
            raise ModelGap('np.full with a sequence fill value')
        dt = scalar_dtype(v)
    else:
        dt = as_dtype(dtype)
    if dt.kind == 'U' and _str_width(dt) == 0:
        dt = str_dtype(cell_strlen(cast_cell(v, dt)))
    if isinstance(v, (tuple, list)) and dt.kind != 'O':
        raise ValueError('setting an array element with a sequence.')
    if isinstance(v, (tuple, list)):
        raise ModelGap('np.full(object) with a sequence fill value broadcasts')
    c = cast_cell(v, dt, assign=True)
    return ndarray._from_cells([c] * _prod(shape), shape, dt)


def zeros(shape, dtype=float, **kw):
    return full(shape, 0, dtype=dtype)


def ones(shape, dtype=float, **kw):
    return full(shape, 1, dtype=dtype)


def arange(start=None, stop=None, step=None, dtype=None, **kw):
    """np.arange: evenly spaced integer values within the half-open interval [start, stop)."""
    if stop is None:
        start, stop = 0, start
    if start is None:
        start = 0
    if step is None:
        step = 1
    for v in (start, stop, step):
        if isinstance(v, float):
            raise ModelGap('float arange')
        if isinstance(v, (_np.datetime64, _np.timedelta64, str)) or (dtype is not None and as_dtype(dtype).kind in 'Mm'):
            from .array import from_real
            return from_real(_np.arange(start, stop, step, dtype=dtype))
    n = len(range(cint(start, -(1 << 20), 1 << 20), cint(stop, -(1 << 20), 1 << 20), cint(step, -64, 65)))
    dt = DT_INT if dtype is None else as_dtype(dtype)
    return ndarray._from_cells([cast_cell(start + i * step, dt) for i in range(n)], (n,), dt)


def fromiter(iter, dtype, count=-1, **kw):  # noqa: A002
    """np.fromiter: new 1-D array from an iterable, cast to dtype."""
    dt = as_dtype(dtype)
    if dt.kind == 'O':
        cells = [norm_cell(c) for c in iter]
    else:
        cells = []
        for c in iter:
            c = norm_cell(c)
            if isinstance(c, (list, tuple, ndarray)):
                raise ValueError('setting an array element with a sequence.')
            cells.append(cast_cell(c, dt, assign=True))
    if count is not None and count >= 0:
        if len(cells) < count:
            raise ValueError(f'iterator too short: Expected {count} but iterator had only {len(cells)} items.')
        cells = cells[:count]
    if dt.kind == 'U' and _str_width(dt) == 0:
        raise ValueError('Must specify length when using variable-size data-type.')
    return ndarray._from_cells(cells, (len(cells),), dt)


# -------------------------------------------------------------------------- shape manipulation

def reshape(a, shape=None, order='C', newshape=None, **kw):
    if shape is None:
        shape = newshape
    if isinstance(shape, (int, _np.integer)):
        shape = (shape,)
    return a.reshape(tuple(shape))


def transpose(a, axes=None):
    return a.transpose()


def concatenate(arrays, axis=0, out=None, dtype=None, **kw):
    """np.concatenate: join a sequence of arrays along an existing axis; the arrays must have the
    same shape except in the dimension corresponding to axis; result dtype is the promoted type
    unless `out` is given, in which case values are cast (same_kind) into out."""
    arrays = list(arrays)
    if not arrays:
        raise ValueError('need at least one array to concatenate')
    for a in arrays:
        if not isinstance(a, ndarray):
            raise ModelGap('concatenate of non-arrays')
    nd = arrays[0].ndim
    if nd == 0:
        raise ValueError('zero-dimensional arrays cannot be concatenated')
    for a in arrays:
        if a.ndim != nd:
            raise ValueError('all the input array dimensions except for the concatenation axis must match exactly')
    if axis is None:
        raise ModelGap('concatenate axis=None')
    if axis < 0:
        axis += nd
    if axis >= nd:
        raise _np.exceptions.AxisError(f'axis {axis} is out of bounds for array of dimension {nd}')
    if out is not None:
        dt = out._dtype
    elif dtype is not None:
        dt = as_dtype(dtype)
    else:
        dt = arrays[0]._dtype
        for a in arrays[1:]:
            dt = _np.result_type(dt, a._dtype)
    if nd == 1:
        cells = []
        for a in arrays:
            cells.extend(a._cells())
        shape = (len(cells),)
    elif axis == 0:
        w = arrays[0]._shape[1]
        cells = []
        r = 0
        for a in arrays:
            if a._shape[1] != w:
                raise ValueError('all the input array dimensions except for the concatenation axis must match exactly')
            cells.extend(a._cells())
            r += a._shape[0]
        shape = (r, w)
    else:
        h = arrays[0]._shape[0]
        for a in arrays:
            if a._shape[0] != h:
                raise ValueError('all the input array dimensions except for the concatenation axis must match exactly')
        lists = [a._rows() for a in arrays]
        cells = []
        for i in range(h):
            for l in lists:
                cells.extend(l[i])
        shape = (h, _builtin_sum(a._shape[1] for a in arrays))
    need_cast = _builtin_any(a._dtype != dt for a in arrays)
    if need_cast:
        if out is not None:
            for a in arrays:
                if not _np.can_cast(a._dtype, dt, 'same_kind'):
                    raise TypeError(f"Cannot cast array data from {a._dtype} to {dt} according to the rule 'same_kind'")
        cells = [cast_cell(c, dt) for c in cells]
    if out is not None:
        if out._shape != shape:
            raise ValueError('Output array is the wrong shape')
        if not out.flags._writeable:
            raise ValueError('output array is read-only')
        _mark(out._buf)
        for p, c in zip(out._positions(), cells):
            out._buf[p] = c
        return out
    return ndarray._from_cells(cells, shape, dt)


def delete(arr, obj, axis=None):
    """np.delete: a NEW array with the sub-arrays along `axis` named by obj removed."""
    if axis is None:
        if arr.ndim != 1:
            raise ModelGap('delete axis=None on 2-d')
        axis = 0
    n = arr._shape[axis]
    if isinstance(obj, slice):
        from .array import slice_positions
        drop = set(slice_positions(obj, n)[0])
    elif isinstance(obj, (int, _np.integer)) and not isinstance(obj, bool):
        i = obj
        if i < -n or i >= n:
            raise IndexError(f'index {obj} is out of bounds for axis {axis} with size {n}')
        if i < 0:
            i += n
        drop = {cint(i, 0, n)}
    else:
        if isinstance(obj, ndarray):
            if obj._dtype.kind == 'b':
                if obj._shape != (n,):
                    raise ValueError('boolean array argument obj to delete must be one dimensional and match the axis length')
                drop = {i for i, c in enumerate(obj._cells()) if c}
                obj = None
            else:
                obj = obj._cells()
        if obj is not None:
            drop = set()
            for c in obj:
                if isinstance(c, bool):
                    raise ModelGap('delete with bool list')
                if c < -n or c >= n:
                    raise IndexError(f'index {c} is out of bounds for axis {axis} with size {n}')
                if c < 0:
                    c += n
                drop.add(cint(c, 0, n))
    keep = [i for i in range(n) if i not in drop]
    if arr.ndim == 1:
        return arr[keep]
    if axis == 0:
        return arr[keep, :] if keep else ndarray._from_cells([], (0, arr._shape[1]), arr._dtype)
    return arr[:, keep] if keep else ndarray._from_cells([], (arr._shape[0], 0), arr._dtype)


def roll(a, shift, axis=None):
    """np.roll: elements that roll beyond the last position are re-introduced at the first."""
    if axis is None:
        if a.ndim != 1:
            raise ModelGap('roll axis=None on 2-d')
        axis = 0
    n = a._shape[axis]
    if n == 0:
        return a.copy()
    s = cint(shift % n, 0, n)
    idx = [(i - s) % n for i in range(n)]
    if a.ndim == 1:
        return a[idx]
    return a[idx, :] if axis == 0 else a[:, idx]


def repeat(a, repeats, axis=None):
    if not isinstance(a, ndarray):
        a = asarray_seq(a, None)
    if axis is None:
        cells = a._cells()
        r = cint(repeats, 0, 1 << 16)
        out = []
        for c in cells:
            out.extend([c] * r)
        return ndarray._from_cells(out, (len(out),), a._dtype)
    raise ModelGap('repeat with axis')


def tile(a, reps):
    if not isinstance(a, ndarray):
        a = asarray_seq(a, None)
    if a.ndim != 1 or not isinstance(reps, (int, _np.integer)):
        raise ModelGap('tile beyond 1-d by int')
    cells = a._cells() * cint(reps, 0, 1 << 16)
    return ndarray._from_cells(cells, (len(cells),), a._dtype)


def ndindex(*shape):
    if len(shape) == 1 and isinstance(shape[0], tuple):
        shape = shape[0]
    shape = _shape_arg(shape)
    if len(shape) == 0:
        yield ()
    elif len(shape) == 1:
        for i in range(shape[0]):
            yield (i,)
    elif len(shape) == 2:
        for i in range(shape[0]):
            for j in range(shape[1]):
                yield (i, j)
    else:
        raise ModelGap('ndindex ndim > 2')


def ndenumerate(arr):
    cells = arr._cells()
    for idx, c in zip(ndindex(arr._shape), cells):
        yield idx, c


def ix_(*args):
    raise ModelGap('ix_')


# -------------------------------------------------------------------------- logic / reductions

def _axis_groups(a, axis):
    """Return (list of cell lists, result shape) reducing along axis."""
    if a.ndim == 0:
        return [a._cells()], ()
    if axis is None:
        return [a._cells()], ()
    if axis < 0:
        axis += a.ndim
    if a.ndim == 1:
        if axis != 0:
            raise _np.exceptions.AxisError(f'axis {axis} is out of bounds for array of dimension 1')
        return [a._cells()], ()
    if axis >= 2:
        raise _np.exceptions.AxisError(f'axis {axis} is out of bounds for array of dimension 2')
    rows = a._rows()
    r, c = a._shape
    if axis == 0:
        return [[rows[i][j] for i in range(r)] for j in range(c)], (c,)
    return rows, (r,)


def _reduce(a, axis, out, fn, dt):
    if not isinstance(a, ndarray):
        a = asarray_seq(a, None)
    groups, shape = _axis_groups(a, axis)
    vals = [fn(g) for g in groups]
    if shape == ():
        if out is not None:
            raise ModelGap('out= with full reduction')
        if dt is DT_BOOL:
            return BoolScalar(vals[0])
        return vals[0]
    if out is not None:
        if out._shape != shape:
            raise ValueError('output parameter for reduction operation has the wrong shape')
        if not out.flags._writeable:
            raise ValueError('output array is read-only')
        _mark(out._buf)
        for p, v in zip(out._positions(), vals):
            out._buf[p] = cast_cell(v, out._dtype)
        return out
    return ndarray._from_cells(vals, shape, dt)


def _truth(c):
    if is_nan(c):
        return True
    if c is POISON:
        return POISON
    if isinstance(c, bool):
        return c
    if isinstance(c, int):
        return c != 0
    if isinstance(c, str):
        return len(c) != 0
    if c is None:
        return False
    return bool(c)


def _all_impl(a, axis=None, out=None, keepdims=False, **kw):
    """np.all: logical AND over the given axis; NaN evaluates to True (it is not equal to zero)."""
    if not isinstance(a, ndarray):
        a = asarray_seq(a, None)
    if a._dtype.kind == 'O':
        def fn(g):
            # object arrays: Python `and` chain, returns the deciding object
            r = True
            for c in g:
                r = c
                if not _truth(c):
                    return c
            return r
        return _reduce(a, axis, out, fn, DT_OBJECT)

    def fn(g):
        for c in g:
            if not _truth(c):
                return False
        return True
    return _reduce(a, axis, out, fn, DT_BOOL)


def all(a, axis=None, out=None, keepdims=False, **kw):  # noqa: A001
    return _all_impl(a, axis=axis, out=out)


def any(a, axis=None, out=None, keepdims=False, **kw):  # noqa: A001
    return _any_impl(a, axis=axis, out=out)


def _any_impl(a, axis=None, out=None, keepdims=False, **kw):
    """np.any: logical OR over the given axis; NaN evaluates to True."""
    if not isinstance(a, ndarray):
        a = asarray_seq(a, None)
    if a._dtype.kind == 'O':
        def fn(g):
            r = False
            for c in g:
                r = c
                if _truth(c):
                    return c
            return r
        return _reduce(a, axis, out, fn, DT_OBJECT)

    def fn(g):
        for c in g:
            if _truth(c):
                return True
        return False
    return _reduce(a, axis, out, fn, DT_BOOL)


def logical_not(a, out=None, **kw):
    if not isinstance(a, ndarray):
        return not a
    if out is not None:
        raise ModelGap('logical_not out=')
    if a._dtype.kind == 'b':
        return ndarray._from_cells([_not(c) for c in a._cells()], a._shape, DT_BOOL)
    return ndarray._from_cells([_not(_truth(c)) for c in a._cells()], a._shape,
            DT_OBJECT if a._dtype.kind == 'O' else DT_BOOL)


def isnan(x, out=None, **kw):
    """np.isnan: element-wise test for NaN; TypeError for inputs that cannot be coerced to float."""
    if isinstance(x, ndarray):
        k = x._dtype.kind
        if k in 'biu':
            return ndarray._from_cells([False] * x.size, x._shape, DT_BOOL)
        if k in 'fc':
            return ndarray._from_cells([is_nan(c) for c in x._cells()], x._shape, DT_BOOL)
        raise TypeError("ufunc 'isnan' not supported for the input types, and the inputs could not be safely coerced to any supported types according to the casting rule ''safe''")
    if is_nan(x):
        return True
    if isinstance(x, bool) or isinstance(x, int):
        return False
    if isinstance(x, float):
        return x != x
    if isinstance(x, (_np.floating, _np.integer, _np.bool_)):
        return bool(_np.isnan(x))
    raise TypeError("ufunc 'isnan' not supported for the input types, and the inputs could not be safely coerced to any supported types according to the casting rule ''safe''")


def isnat(x, **kw):
    if isinstance(x, ndarray):
        if x._dtype.kind in 'Mm':
            return ndarray._from_cells([bool(_np.isnat(c)) for c in x._cells()], x._shape, DT_BOOL)
        raise TypeError("ufunc 'isnat' is only defined for np.datetime64 and np.timedelta64.")
    if isinstance(x, (_np.datetime64, _np.timedelta64)):
        return bool(_np.isnat(x))
    raise TypeError("ufunc 'isnat' is only defined for np.datetime64 and np.timedelta64.")


def isposinf(x, **kw):
    raise ModelGap('isposinf')


def isneginf(x, **kw):
    raise ModelGap('isneginf')


def _ufunc2(op):
    def f(x1, x2, out=None, **kw):
        if not isinstance(x1, ndarray) and not isinstance(x2, ndarray):
            x1 = asarray_seq(x1, None)
        res = _binop(op, x1, x2)
        if res is NotImplemented:
            raise TypeError('operand type not supported')
        if out is not None:
            if not out.flags._writeable:
                raise ValueError('output array is read-only')
            if out._shape != res._shape:
                raise ValueError('non-broadcastable output operand')
            _mark(out._buf)
            for p, c in zip(out._positions(), res._cells()):
                out._buf[p] = cast_cell(c, out._dtype)
            return out
        return res
    f.__name__ = op
    return f


equal = _ufunc2('eq')
not_equal = _ufunc2('ne')
less = _ufunc2('lt')
greater = _ufunc2('gt')
add = _ufunc2('add')
subtract = _ufunc2('sub')
multiply = _ufunc2('mul')
logical_and = _ufunc2('and')
logical_or = _ufunc2('or')


def nonzero(a):
    """np.nonzero: tuple of index arrays, one per dimension, of the non-zero elements in C order."""
    if not isinstance(a, ndarray):
        a = asarray_seq(a, None)
    cells = a._cells()
    if a.ndim == 1:
        pos = [i for i, c in enumerate(cells) if _truth(c)]
        return (ndarray._from_cells(pos, (len(pos),), DT_INT),)
    if a.ndim == 2:
        w = a._shape[1]
        ys, xs = [], []
        for i, c in enumerate(cells):
            if _truth(c):
                ys.append(i // w)
                xs.append(i % w)
        return (ndarray._from_cells(ys, (len(ys),), DT_INT), ndarray._from_cells(xs, (len(xs),), DT_INT))
    raise ModelGap('nonzero ndim')


def where(condition, x=None, y=None):
    """np.where: with one argument nonzero(condition); with three, an array with elements from x where condition is
    true and from y elsewhere (all three broadcast together)."""
    if x is None and y is None:
        return nonzero(condition)
    if x is None or y is None:
        raise ValueError('either both or neither of x and y should be given')
    cond = condition if isinstance(condition, ndarray) else asarray_seq(condition, None)
    xa = x if isinstance(x, ndarray) else asarray_seq(x, None)
    ya = y if isinstance(y, ndarray) else asarray_seq(y, None)
    shape = _broadcast_shapes(_broadcast_shapes(cond._shape, xa._shape), ya._shape)
    cc = _broadcast_flat(cond._cells(), cond._shape, shape)
    xc = _broadcast_flat(xa._cells(), xa._shape, shape)
    yc = _broadcast_flat(ya._cells(), ya._shape, shape)
    dt = _np.result_type(scalar_dtype(x) if not isinstance(x, ndarray) and not isinstance(x, (list, tuple)) else xa._dtype,
                         scalar_dtype(y) if not isinstance(y, ndarray) and not isinstance(y, (list, tuple)) else ya._dtype)
    cells = []
    for c, a, b in zip(cc, xc, yc):
        t = _truth(c)
        if isinstance(t, bool):
            cells.append(cast_cell(a if t else b, dt))
        else:
            raise ModelGap('np.where on a symbolic condition')
    return ndarray._from_cells(cells, shape, dt)


def flatnonzero(a):
    if not isinstance(a, ndarray):
        a = asarray_seq(a, None)
    pos = [i for i, c in enumerate(a._cells()) if _truth(c)]
    return ndarray._from_cells(pos, (len(pos),), DT_INT)


def _real_object_reduce(name, a, axis, out):
    """Object-dtype reductions are Python-level folds whose corner cases (True + 0, comparisons with
    NaN, the all-NaN paths of the nan* functions) are NumPy's own: when every cell is concrete the
    REAL function is applied to the same cells (same result, same exception)."""
    r = getattr(_np, name)(to_real(a), axis=axis)
    if isinstance(r, _np.ndarray):
        res = from_real(r)
        if out is not None:
            if out._shape != res._shape:
                raise ValueError('output parameter for reduction operation has the wrong shape')
            if not out.flags._writeable:
                raise ValueError('output array is read-only')
            _mark(out._buf)
            for p_, v in zip(out._positions(), res._cells()):
                out._buf[p_] = cast_cell(v, out._dtype)
            return out
        return res
    if out is not None:
        raise ModelGap('out= with full reduction')
    return norm_cell(r)


def _obj_conc(a):
    return isinstance(a, ndarray) and a._dtype.kind == 'O' and conc(a)


def _num_check(a, name):
    k = a._dtype.kind
    if k in 'USMm' and name not in ('min', 'max'):
        raise TypeError(f"ufunc '{name}' did not contain a loop with signature matching types")
    if k in 'US':
        raise TypeError(f"cannot perform reduce with flexible type")


def _sum_cells(g):
    s = 0
    for c in g:
        if is_nan(c):
            return NAN
        s = s + c
    return s


def _nansum_cells(g):
    s = 0
    for c in g:
        if is_nan(c):
            continue
        s = s + c
    return s


def _sum_dtype(dt):
    if dt.kind == 'b' or dt.kind == 'i':
        return DT_INT
    if dt.kind == 'u':
        return _np.dtype(_np.uint64)
    return dt


def sum(a, axis=None, dtype=None, out=None, **kw):
    if not isinstance(a, (ndarray, list, tuple)) and hasattr(a, 'sum'):
        return a.sum(axis=axis) if axis is not None else a.sum()  # noqa: A001
    """np.sum: sum of array elements over a given axis; NaN propagates."""
    if not isinstance(a, ndarray):
        a = asarray_seq(a, None)
    _num_check(a, 'add')
    if _obj_conc(a):
        return _real_object_reduce('sum', a, axis, out)
    if a._dtype.kind == 'O':
        def fn(g):
            s = 0
            first = True
            for c in g:
                s = c if first else s + c
                first = False
            return s
        return _reduce(a, axis, out, fn, DT_OBJECT)
    if a._dtype.kind == 'b':
        return _reduce(a, axis, out, lambda g: _sum_cells([cast_cell(c, DT_INT) for c in g]), DT_INT)
    return _reduce(a, axis, out, _sum_cells, _sum_dtype(a._dtype))


def nansum(a, axis=None, dtype=None, out=None, **kw):
    """np.nansum: sum treating NaNs as zero."""
    if not isinstance(a, ndarray):
        a = asarray_seq(a, None)
    _num_check(a, 'add')
    if _obj_conc(a):
        return _real_object_reduce('nansum', a, axis, out)
    if a._dtype.kind == 'O':
        def fn(g):
            s = 0
            first = True
            for c in g:
                if is_nan(c):
                    continue
                s = c if first else s + c
                first = False
            return s
        return _reduce(a, axis, out, fn, DT_OBJECT)
    if a._dtype.kind == 'b':
        return _reduce(a, axis, out, lambda g: _sum_cells([cast_cell(c, DT_INT) for c in g]), DT_INT)
    return _reduce(a, axis, out, _nansum_cells, _sum_dtype(a._dtype))


def _min_cells(g, nanskip, name):
    if not g:
        raise ValueError(f'zero-size array to reduction operation {name} which has no identity')
    best = None
    for c in g:
        if is_nan(c):
            if nanskip:
                continue
            return NAN
        if best is None:
            best = c
        elif (c < best) if name == 'minimum' else (c > best):
            best = c
    if best is None:
        return NAN  # all-NaN slice (RuntimeWarning in NumPy)
    return best


def min(a, axis=None, out=None, **kw):
    if not isinstance(a, (ndarray, list, tuple)) and hasattr(a, 'min'):
        return a.min(axis=axis) if axis is not None else a.min()  # noqa: A001
    """np.min: minimum along an axis; NaN propagates."""
    if not isinstance(a, ndarray):
        a = asarray_seq(a, None)
    _num_check(a, 'min')
    if _obj_conc(a):
        return _real_object_reduce('min', a, axis, out)
    return _reduce(a, axis, out, lambda g: _min_cells(g, False, 'minimum'), a._dtype)


def max(a, axis=None, out=None, **kw):
    if not isinstance(a, (ndarray, list, tuple)) and hasattr(a, 'max'):
        return a.max(axis=axis) if axis is not None else a.max()  # noqa: A001
    if not isinstance(a, ndarray):
        a = asarray_seq(a, None)
    _num_check(a, 'max')
    if _obj_conc(a):
        return _real_object_reduce('max', a, axis, out)
    return _reduce(a, axis, out, lambda g: _min_cells(g, False, 'maximum'), a._dtype)


def nanmin(a, axis=None, out=None, **kw):
    """np.nanmin: minimum ignoring NaNs (all-NaN slice gives NaN with a RuntimeWarning)."""
    if not isinstance(a, ndarray):
        a = asarray_seq(a, None)
    _num_check(a, 'min')
    if _obj_conc(a):
        return _real_object_reduce('nanmin', a, axis, out)
    return _reduce(a, axis, out, lambda g: _min_cells(g, True, 'minimum'), a._dtype)


def nanmax(a, axis=None, out=None, **kw):
    if not isinstance(a, ndarray):
        a = asarray_seq(a, None)
    _num_check(a, 'max')
    if _obj_conc(a):
        return _real_object_reduce('nanmax', a, axis, out)
    return _reduce(a, axis, out, lambda g: _min_cells(g, True, 'maximum'), a._dtype)


def _arg_cells(g, nanskip, name):
    if not g:
        raise ValueError(f'attempt to get {name} of an empty sequence')
    best = None
    bi = None
    for i, c in enumerate(g):
        if is_nan(c):
            if nanskip:
                continue
            return i  # np.argmin/argmax: first NaN wins
        if best is None or ((c < best) if name == 'argmin' else (c > best)):
            best, bi = c, i
    if bi is None:
        raise ValueError('All-NaN slice encountered')
    return bi


def argmin(a, axis=None, out=None, **kw):
    """np.argmin: index of the first occurrence of the minimum (NaN counts as minimal)."""
    if not isinstance(a, ndarray):
        a = asarray_seq(a, None)
    return _reduce(a, axis, out, lambda g: _arg_cells(g, False, 'argmin'), DT_INT)


def argmax(a, axis=None, out=None, **kw):
    if not isinstance(a, ndarray):
        a = asarray_seq(a, None)
    return _reduce(a, axis, out, lambda g: _arg_cells(g, False, 'argmax'), DT_INT)


def nanargmin(a, axis=None, out=None, **kw):
    """np.nanargmin: index of the minimum ignoring NaNs; ValueError for all-NaN slices."""
    if not isinstance(a, ndarray):
        a = asarray_seq(a, None)
    return _reduce(a, axis, out, lambda g: _arg_cells(g, True, 'argmin'), DT_INT)


def nanargmax(a, axis=None, out=None, **kw):
    if not isinstance(a, ndarray):
        a = asarray_seq(a, None)
    return _reduce(a, axis, out, lambda g: _arg_cells(g, True, 'argmax'), DT_INT)


class Token:
    """Uninterpreted result of a floating-point reduction over SYMBOLIC cells: (name, cells, ddof).
    Two tokens are equal iff the same function was applied to the same cells in the same order with
    the same options.  With concrete cells the real NumPy function is evaluated instead."""
    __slots__ = ('name', 'cells', 'extra')

    def __init__(self, name, cells, extra):
        self.name, self.cells, self.extra = name, tuple(cells), extra

    def key(self):
        return (self.name, self.cells, self.extra)

    def __eq__(self, o):
        return isinstance(o, Token) and self.key() == o.key()

    def __ne__(self, o):
        return not self.__eq__(o)

    def __hash__(self):
        return hash(self.name)

    def __repr__(self):
        return f'Token{self.key()!r}'


def _uninterpreted(name, nanskip=False):
    def f(a, axis=None, dtype=None, out=None, ddof=0, **kw):
        if not isinstance(a, ndarray):
            if hasattr(a, name) and not isinstance(a, (list, tuple)):
                return getattr(a, name)(axis=axis) if axis is not None else getattr(a, name)()
            a = asarray_seq(a, None)
        _num_check(a, name)

        def fn(g):
            cells = [c for c in g if not (nanskip and is_nan(c))]
            if not nanskip and _builtin_any(is_nan(c) for c in g):
                return NAN
            if _builtin_any(is_symbolic(c) for c in cells) or a._dtype.kind == 'O':
                return Token(name, cells, ddof)
            if not cells:
                return NAN
            real = _np.array(cells, dtype=a._dtype)
            if name in ('std', 'var'):
                return norm_cell(getattr(_np, name)(real, ddof=ddof))
            return norm_cell(getattr(_np, name)(real))
        return _reduce(a, axis, out, fn, DT_FLOAT)
    f.__name__ = ('nan' if nanskip else '') + name
    return f


mean = _uninterpreted('mean')
nanmean = _uninterpreted('mean', True)
median = _uninterpreted('median')
nanmedian = _uninterpreted('median', True)
std = _uninterpreted('std')
nanstd = _uninterpreted('std', True)
var = _uninterpreted('var')
nanvar = _uninterpreted('var', True)


def _prod_cells(g):
    p = 1
    for c in g:
        if is_nan(c):
            return NAN
        p = p * c
    return p


def prod(a, axis=None, dtype=None, out=None, **kw):
    if not isinstance(a, (ndarray, list, tuple)) and hasattr(a, 'prod'):
        return a.prod(axis=axis) if axis is not None else a.prod()
    if not isinstance(a, ndarray):
        a = asarray_seq(a, None)
    _num_check(a, 'multiply')
    if _obj_conc(a):
        return _real_object_reduce('prod', a, axis, out)
    for c in a._cells():
        if is_symbolic(c):
            return _uninterpreted('prod')(a, axis=axis, out=out)
    return _reduce(a, axis, out, _prod_cells, _sum_dtype(a._dtype))


def nanprod(a, axis=None, dtype=None, out=None, **kw):
    if not isinstance(a, ndarray):
        a = asarray_seq(a, None)
    _num_check(a, 'multiply')
    if _obj_conc(a):
        return _real_object_reduce('nanprod', a, axis, out)
    for c in a._cells():
        if is_symbolic(c):
            return _uninterpreted('prod', True)(a, axis=axis, out=out)
    return _reduce(a, axis, out, lambda g: _prod_cells([c for c in g if (not is_nan(c))]), _sum_dtype(a._dtype))


def _cum(a, axis, out, nanskip, mul=False):
    if not isinstance(a, ndarray):
        a = asarray_seq(a, None)
    _num_check(a, 'add')
    if mul and _builtin_any(is_symbolic(c) for c in a._cells()):
        raise ModelGap('cumprod of symbolic cells')
    dt = _sum_dtype(a._dtype)

    def run(g):
        acc = 1 if mul else 0
        res = []
        for c in g:
            if is_nan(c) and nanskip:
                c = 1 if mul else 0
            if is_nan(acc) or is_nan(c):
                acc = NAN
            else:
                acc = acc * c if mul else acc + cast_cell(c, dt)
            res.append(acc)
        return res
    if a.ndim == 1 or axis is None:
        cells = run(a._cells())
        res = ndarray._from_cells(cells, (len(cells),), dt)
    else:
        rows = a._rows()
        r, c = a._shape
        if axis == 0:
            cols = [run([rows[i][j] for i in range(r)]) for j in range(c)]
            cells = [cols[j][i] for i in range(r) for j in range(c)]
        else:
            cells = [v for row in rows for v in run(row)]
        res = ndarray._from_cells(cells, a._shape, dt)
    if out is not None:
        out[...] = res
        return out
    return res


def cumsum(a, axis=None, dtype=None, out=None):
    return _cum(a, axis, out, False)


def nancumsum(a, axis=None, dtype=None, out=None):
    return _cum(a, axis, out, True)


def cumprod(a, axis=None, dtype=None, out=None):
    return _cum(a, axis, out, False, True)


def nancumprod(a, axis=None, dtype=None, out=None):
    return _cum(a, axis, out, True, True)


# -------------------------------------------------------------------------- sorting

def _lt_key(a, b):
    """Strict 'a sorts before b' in NumPy's order (NaN last)."""
    if is_nan(a):
        return False
    if is_nan(b):
        return True
    return num_lt(a, b)


def _eq_key(a, b):
    if is_nan(a) or is_nan(b):
        return is_nan(a) and is_nan(b)
    return num_eq(a, b)


def _stable_order(keys_list):
    """Stable insertion sort of positions by lexicographic keys (keys_list: most significant first)."""
    n = len(keys_list[0]) if keys_list else 0
    order = []
    for i in range(n):
        j = len(order)
        while j > 0:
            p = order[j - 1]
            before = False  # does i sort strictly before p ?
            for keys in keys_list:
                if _lt_key(keys[i], keys[p]):
                    before = True
                    break
                if _lt_key(keys[p], keys[i]):
                    break
            if before:
                j -= 1
            else:
                break
        order.insert(j, i)
    return order


def _unstable(order, keys_list):
    """A non-stable sort may return any arrangement of equal keys: swap adjacent ties per the tape."""
    for j in range(len(order) - 1):
        a, b = order[j], order[j + 1]
        if _builtin_all(_eq_key(k[a], k[b]) for k in keys_list):
            if nondet.choose_bool('unstable-sort tie'):
                order[j], order[j + 1] = b, a
    return order


STABLE_KINDS = ('mergesort', 'stable')


def _check_sortable(a):
    if a._dtype.kind == 'O':
        cells = a._cells()
        for c in cells:
            if c is None or isinstance(c, (dict, set)):
                if len(cells) > 1:
                    raise TypeError("'<' not supported between instances")


def argsort(a, axis=-1, kind=None, order=None, **kw):
    """np.argsort: indices that would sort the array; kind 'stable'/'mergesort' keeps the relative
    order of equal elements, other kinds do not promise it."""
    if not isinstance(a, ndarray):
        a = asarray_seq(a, None)
    if a.ndim != 1:
        if a.ndim == 2 and axis is None:
            a = a.flatten()
        else:
            raise ModelGap('argsort on 2-d')
    _check_sortable(a)
    keys = a._cells()
    o = _stable_order([keys])
    if kind not in STABLE_KINDS:
        o = _unstable(o, [keys])
    return ndarray._from_cells(o, (len(o),), DT_INT)


def sort(a, axis=-1, kind=None, order=None, **kw):
    if not isinstance(a, ndarray):
        a = asarray_seq(a, None)
    if a.ndim != 1:
        raise ModelGap('sort on 2-d')
    _check_sortable(a)
    keys = a._cells()
    o = _stable_order([keys])
    return ndarray._from_cells([keys[i] for i in o], a._shape, a._dtype)


def lexsort(keys, axis=-1):
    """np.lexsort: indirect STABLE sort using a sequence of keys; the LAST key is the primary one."""
    ks = []
    for k in keys:
        if not isinstance(k, ndarray):
            k = asarray_seq(k, None)
        if k.ndim != 1:
            raise ModelGap('lexsort with 2-d keys')
        if k._dtype.kind == 'O':
            raise TypeError('object arrays are not supported by lexsort') if False else None
        ks.append(k._cells())
    if isinstance(keys, ndarray) and keys.ndim == 2:
        ks = keys._rows()
    ks = list(reversed(ks))
    o = _stable_order(ks) if ks else []
    return ndarray._from_cells(o, (len(o),), DT_INT)


def unique(ar, return_index=False, return_inverse=False, return_counts=False, axis=None, **kw):
    """np.unique: the SORTED unique elements; optionally the indices of first occurrences and the
    indices to reconstruct the input."""
    if not isinstance(ar, ndarray):
        ar = asarray_seq(ar, None)
    if return_counts:
        raise ModelGap('unique return_counts')
    if ar.ndim == 2 and axis is not None:
        if ar._dtype.kind == 'O':
            raise TypeError('The axis argument to unique is not supported for dtype object')
        if axis == 1:
            u = unique(ar.T, return_index=return_index, return_inverse=return_inverse, axis=0)
            if isinstance(u, tuple):
                return (u[0].T.copy(),) + u[1:]
            return u.T.copy()
        rows = ar._rows()
        w = ar._shape[1]
        keys = [[r[j] for r in rows] for j in range(w)]
        o = _stable_order(keys) if w else list(range(len(rows)))
        groups = []  # list of lists of original positions
        for p in o:
            if groups and _builtin_all(_eq_key(rows[p][j], rows[groups[-1][0]][j]) for j in range(w)):
                groups[-1].append(p)
            else:
                groups.append([p])
        cells = [c for g in groups for c in rows[g[0]]]
        res = ndarray._from_cells(cells, (len(groups), w), ar._dtype)
        n = len(rows)
    else:
        in_shape = ar._shape
        if ar.ndim == 2:
            ar = ar.flatten()
        _check_sortable(ar)
        keys = ar._cells()
        o = _stable_order([keys])
        groups = []
        for p in o:
            if groups and _eq_key(keys[p], keys[groups[-1][0]]):
                groups[-1].append(p)
            else:
                groups.append([p])
        res = ndarray._from_cells([keys[g[0]] for g in groups], (len(groups),), ar._dtype)
        n = len(keys)
    out = (res,)
    if return_index:
        out += (ndarray._from_cells([g[0] for g in groups], (len(groups),), DT_INT),)
    if return_inverse:
        inv = [None] * n
        for gi, g in enumerate(groups):
            for p in g:
                inv[p] = gi
        inv_arr = ndarray._from_cells(inv, (n,), DT_INT)
        if axis is None and len(locals().get('in_shape', ())) == 2:
            # NumPy 2: with axis=None the inverse has the SHAPE OF THE INPUT
            inv_arr = inv_arr.reshape(locals()['in_shape'])
        out += (inv_arr,)
    return out if len(out) > 1 else res


def _member(c, cells):
    for d in cells:
        if _eq_key(c, d) and (not is_nan(c)):
            return True
    return False


def _set_dtype(a, b):
    return _np.result_type(a._dtype, b._dtype)


def union1d(ar1, ar2):
    """np.union1d: the unique, SORTED array of values that are in either input."""
    ar1 = ar1 if isinstance(ar1, ndarray) else asarray_seq(ar1, None)
    ar2 = ar2 if isinstance(ar2, ndarray) else asarray_seq(ar2, None)
    dt = _set_dtype(ar1, ar2)
    both = ndarray._from_cells([cast_cell(c, dt) for c in ar1._cells() + ar2._cells()], (ar1.size + ar2.size,), dt)
    return unique(both)


def intersect1d(ar1, ar2, assume_unique=False, return_indices=False):
    """np.intersect1d: the SORTED, unique values that are in both inputs."""
    if return_indices:
        raise ModelGap('intersect1d return_indices')
    ar1 = ar1 if isinstance(ar1, ndarray) else asarray_seq(ar1, None)
    ar2 = ar2 if isinstance(ar2, ndarray) else asarray_seq(ar2, None)
    dt = _set_dtype(ar1, ar2)
    c2 = [cast_cell(c, dt) for c in ar2._cells()]
    c1 = [cast_cell(c, dt) for c in ar1._cells()]
    common = [c for c in c1 if _member(c, c2)]
    return unique(ndarray._from_cells(common, (len(common),), dt))


def setdiff1d(ar1, ar2, assume_unique=False):
    """np.setdiff1d: values in ar1 not in ar2; sorted and unique unless assume_unique, in which
    case the order of ar1 is kept."""
    ar1 = ar1 if isinstance(ar1, ndarray) else asarray_seq(ar1, None)
    ar2 = ar2 if isinstance(ar2, ndarray) else asarray_seq(ar2, None)
    if not assume_unique:
        ar1 = unique(ar1)
    c2 = ar2._cells()
    keep = [c for c in ar1._cells() if not _member(c, c2)]
    return ndarray._from_cells(keep, (len(keep),), ar1._dtype)


def isin(element, test_elements, assume_unique=False, invert=False, **kw):
    """np.isin: Boolean array of the same shape as element, True where the element is in
    test_elements."""
    element = element if isinstance(element, ndarray) else asarray_seq(element, None)
    test = test_elements if isinstance(test_elements, ndarray) else asarray_seq(test_elements, None)
    tc = test._cells()
    res = [_member(c, tc) for c in element._cells()]
    if invert:
        res = [_not(r) for r in res]
    return ndarray._from_cells(res, element._shape, DT_BOOL)


def searchsorted(*a, **kw):
    raise ModelGap('searchsorted')


def matmul(*a, **kw):
    raise ModelGap('matmul')


def dot(*a, **kw):
    raise ModelGap('dot')


def cov(*a, **kw):
    raise ModelGap('cov')


def clip(*a, **kw):
    raise ModelGap('clip')


def round(*a, **kw):  # noqa: A001
    raise ModelGap('round')


def genfromtxt(*a, **kw):
    raise ModelGap('genfromtxt')


def array_str(*a, **kw):
    raise ModelGap('array_str')


def array_equal(a, b):
    if a._shape != b._shape:
        return False
    return _all_impl(_binop("eq", a, b))


def result_type(*args):
    real = []
    for a in args:
        if isinstance(a, ndarray):
            real.append(a._dtype)
        else:
            real.append(a)
    return _np.result_type(*real)


def can_cast(from_, to, casting='safe'):
    if isinstance(from_, ndarray):
        from_ = from_._dtype
    return _np.can_cast(from_, to, casting)


def isscalar(x):
    return not isinstance(x, ndarray) and _np.isscalar(x)


def ndim(x):
    if isinstance(x, ndarray):
        return x.ndim
    return _np.ndim(x)


def shape(x):
    if isinstance(x, ndarray):
        return x._shape
    return _np.shape(x)
