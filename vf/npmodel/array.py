"""ndarray of the NumPy contract model: 0/1/2-D strided views over a shared Python list.

Contract encoded (NumPy reference manual, "Indexing on ndarrays", "Copies and views",
"ndarray.flags"):
  * basic indexing (ints, slices) returns a VIEW sharing the buffer and inheriting `writeable`;
  * advanced indexing (integer sequences/arrays, Boolean arrays) returns a fresh, writeable COPY;
  * astype/copy/operators/concatenate/full/empty/array return fresh writeable arrays;
  * writing through a non-writeable array raises ValueError('assignment destination is read-only');
  * `flags.writeable = True` on a view whose base is not writeable raises ValueError.
Shapes are concrete per path; cells may be symbolic.  dtype is a real numpy.dtype (concrete).
"""
import numpy as _np
_builtin_all = all

from .cells import NAN, POISON, ModelGap, is_nan, norm_cell, cell_kind, BoolScalar, is_symbolic, num_eq, num_lt, Buf, conc, fast, in_fast_path

DT_BOOL = _np.dtype(bool)
DT_INT = _np.dtype(_np.int64)
DT_FLOAT = _np.dtype(_np.float64)
DT_OBJECT = _np.dtype(object)

INT64_MAX = 2 ** 63 - 1
INT64_MIN = -2 ** 63


def cint(i, lo, hi, what='index'):
    """Return the concrete int equal to i, for lo <= i < hi; forks once per candidate value when i
    is symbolic (a bounded case split, decided by the solver)."""
    if not is_symbolic(i):
        if isinstance(i, _np.integer):
            i = int(i)
        return i
    for k in range(lo, hi):
        if i == k:
            return k
    raise ModelGap(f'cint: {what} outside [{lo},{hi})')


# ---------------------------------------------------------------------------------------------
# pure-Python slice.indices (CPython PySlice_AdjustIndices); used so that symbolic start/stop
# split per region rather than being realised by the C implementation.

def py_slice_indices(start, stop, step, length):
    if step is None:
        step = 1
    if step == 0:
        raise ValueError('slice step cannot be zero')
    neg = step < 0
    if neg:
        lower, upper = -1, length - 1
    else:
        lower, upper = 0, length
    if start is None:
        start = upper if neg else lower
    else:
        if start < 0:
            start = start + length
            if start < lower:
                start = lower
        elif start > upper:
            start = upper
    if stop is None:
        stop = lower if neg else upper
    else:
        if stop < 0:
            stop = stop + length
            if stop < lower:
                stop = lower
        elif stop > upper:
            stop = upper
    return start, stop, step


def slice_positions(key, length):
    """Concrete list of positions selected by slice `key` on an axis of `length`."""
    start, stop, step = key.start, key.stop, key.step
    for v in (start, stop, step):
        if v is not None and not isinstance(v, (int, _np.integer)):
            if hasattr(v, '__index__'):
                continue
            raise TypeError('slice indices must be integers or None or have an __index__ method')
    step = 1 if step is None else cint(step, -64, 65, 'slice step')
    start, stop, step = py_slice_indices(start, stop, step, length)
    start = cint(start, -1, length + 1, 'slice start')
    stop = cint(stop, -1, length + 1, 'slice stop')
    return list(range(start, stop, step)), start, step


# ---------------------------------------------------------------------------------------------
# casting

def _str_width(dt):
    return dt.itemsize // 4 if dt.kind == 'U' else dt.itemsize


def str_dtype(n):
    return _np.dtype(f'<U{max(int(n), 1)}')


def cell_strlen(v):
    n = len(v)
    return cint(n, 0, 256, 'str length')


def cast_cell(v, dt, assign=False):
    """Cast one cell to dtype dt following NumPy's documented conversion rules for the modelled
    kinds.  `assign` selects the stricter element-assignment behaviour where it differs."""
    k = dt.kind
    if k == 'O':
        return v
    if v is POISON:
        return POISON
    if k == 'b':
        if isinstance(v, bool):
            return v
        if is_nan(v):
            return True
        if isinstance(v, (int, float)):
            return v != 0
        if v is None:
            return False
        if isinstance(v, str):
            if assign:
                raise ModelGap('assign str into bool array')
            return len(v) != 0
        if isinstance(v, _np.generic):
            return bool(v)
        return bool(v)
    if k in 'iu':
        if isinstance(v, bool):
            return int(v)
        if isinstance(v, int):
            if not is_symbolic(v):
                info = _np.iinfo(dt)
                if v > info.max or v < info.min:
                    raise OverflowError('Python integer out of bounds for ' + dt.name)
            return v
        if is_nan(v):
            if assign:
                raise ValueError('cannot convert float NaN to integer')
            return POISON
        if isinstance(v, float):
            return int(v)
        if v is None:
            raise TypeError("int() argument must be a string, a bytes-like object or a real number, not 'NoneType'")
        if isinstance(v, str):
            return int(v)
        if isinstance(v, _np.integer):
            return int(v)
        if isinstance(v, (tuple, list)):
            raise ValueError('setting an array element with a sequence.')
        raise TypeError(f'int() argument must be a string or a real number, not {type(v).__name__!r}')
    if k == 'f':
        if isinstance(v, bool):
            return int(v)
        if isinstance(v, int):
            if not is_symbolic(v) and (v > 2 ** 53 or v < -2 ** 53):
                return float(v)  # concrete large ints round exactly as IEEE does
            return v
        if is_nan(v):
            return NAN
        if isinstance(v, float):
            return v
        if v is None:
            return NAN
        if isinstance(v, str):
            return norm_cell(float(v))
        if isinstance(v, (tuple, list)):
            raise ValueError('setting an array element with a sequence.')
        if isinstance(v, _np.generic):
            return norm_cell(float(v))
        if type(v).__name__ == 'Token':
            return v
        raise TypeError(f'float() argument must be a string or a real number, not {type(v).__name__!r}')
    if k == 'U':
        n = _str_width(dt)
        if isinstance(v, str):
            s = v
        elif isinstance(v, bool):
            s = 'True' if v else 'False'
        elif is_nan(v):
            s = 'nan'
        elif isinstance(v, int):
            s = str(v)
        elif v is None:
            s = 'None'
        elif isinstance(v, (tuple, list)):
            if assign:
                raise ValueError('setting an array element with a sequence')
            s = str(v)
        else:
            s = str(v)
        if n and cell_strlen(s) > n:
            return s[:n]
        return s
    if k in 'Mm':
        if is_nan(v) or v is None:
            return _np.array([None]).astype(dt)[0]
        if is_symbolic(v):
            raise ModelGap('symbolic value cast to datetime64/timedelta64')
        return _np.array([v]).astype(dt)[0]
    if k == 'V' and dt.names is not None and isinstance(v, tuple) and len(v) == len(dt.names):
        return tuple(cast_cell(x, dt[n], assign) for x, n in zip(v, dt.names))   # a record: field by field
    raise ModelGap(f'cast to dtype {dt}')


def infer_dtype(cells):
    """dtype NumPy's array constructor infers for a flat sequence of scalar cells (dtype=None)."""
    if not cells:
        return DT_FLOAT
    kinds = set()
    for c in cells:
        kinds.add(cell_kind(c))
    if 'O' in kinds:
        return DT_OBJECT
    if kinds == {'b'}:
        return DT_BOOL
    if kinds <= {'b', 'i'}:
        for c in cells:
            if isinstance(c, int) and not isinstance(c, bool) and not is_symbolic(c):
                if c > INT64_MAX:
                    if c <= 2 ** 64 - 1 and all(
                            (not isinstance(d, int)) or is_symbolic(d) or d >= 0 for d in cells):
                        return _np.dtype(_np.uint64)
                    return DT_OBJECT
                if c < INT64_MIN:
                    return DT_OBJECT
        return DT_INT
    if kinds <= {'b', 'i', 'f'}:
        return DT_FLOAT
    if 'U' in kinds:
        if kinds & {'M', 'm', 'S', 'c'}:
            raise ModelGap('dtype inference for str mixed with ' + repr(kinds))
        n = 1
        for c in cells:
            if isinstance(c, str):
                w = cell_strlen(c)
            elif isinstance(c, bool):
                w = 5
            elif isinstance(c, int):
                w = 21
            else:
                w = 32
            if w > n:
                n = w
        return str_dtype(n)
    if kinds <= {'M'} or kinds <= {'m'}:
        return _np.array(list(cells)).dtype
    if kinds <= {'b', 'i', 'f', 'c'}:
        return _np.dtype(complex)
    raise ModelGap('dtype inference for kinds ' + repr(kinds))


def scalar_dtype(v):
    """dtype of np.array(v) for a scalar cell."""
    if hasattr(v, 'dtype') and isinstance(getattr(v, 'dtype'), _np.dtype):
        return v.dtype
    return infer_dtype([v])


class _Flags:
    __slots__ = ('_arr', '_writeable')

    def __init__(self, arr, writeable):
        self._arr = arr
        self._writeable = writeable

    @property
    def writeable(self):
        return self._writeable

    @writeable.setter
    def writeable(self, value):
        value = bool(value)
        if value:
            b = self._arr.base
            if b is not None and not b.flags._writeable:
                raise ValueError('cannot set WRITEABLE flag to True of this array')
        self._writeable = value

    @property
    def owndata(self):
        return self._arr.base is None

    @property
    def c_contiguous(self):
        return self._arr._is_contiguous()

    def __getitem__(self, k):
        if k in ('WRITEABLE', 'W'):
            return self._writeable
        raise ModelGap('flags[%r]' % (k,))

    def __repr__(self):
        return f'<flags writeable={self._writeable}>'


def _prod(shape):
    n = 1
    for s in shape:
        n *= s
    return n


def _c_strides(shape):
    st = []
    acc = 1
    for s in reversed(shape):
        st.append(acc)
        acc *= s
    return tuple(reversed(st))


class ndarray:
    __slots__ = ('_buf', '_off', '_shape', '_st', '_dtype', 'flags', 'base', '__weakref__')
    __array_priority__ = 100.0
    __hash__ = None

    def __init__(self, *a, **kw):
        raise ModelGap('np.ndarray(...) constructor')

    # ---------------------------------------------------------------- construction helpers
    @classmethod
    def _new(cls, buf, off, shape, strides, dtype, writeable=True, base=None):
        self = object.__new__(cls)
        self._buf = buf
        self._off = off
        self._shape = tuple(shape)
        self._st = tuple(strides)
        self._dtype = dtype
        self.base = base
        self.flags = _Flags(self, writeable)
        return self

    @classmethod
    def _from_cells(cls, cells, shape, dtype, sym=None):
        shape = tuple(shape)
        if len(cells) != _prod(shape):
            raise AssertionError('model: cell count does not match shape')
        buf = Buf(cells)
        # conservative: anything built while tracing (outside the concrete fast path) may hold symbolic cells
        buf.sym = (not in_fast_path()) if sym is None else sym
        return cls._new(buf, 0, shape, _c_strides(shape), dtype)

    # ---------------------------------------------------------------- basic attributes
    @property
    def shape(self):
        return self._shape

    @shape.setter
    def shape(self, value):
        raise ModelGap('assigning ndarray.shape')

    @property
    def dtype(self):
        return self._dtype

    @property
    def ndim(self):
        return len(self._shape)

    @property
    def size(self):
        return _prod(self._shape)

    @property
    def itemsize(self):
        return self._dtype.itemsize

    @property
    def nbytes(self):
        return self._dtype.itemsize * self.size

    @property
    def strides(self):
        return tuple(s * self._dtype.itemsize for s in self._st)

    @property
    def __array_interface__(self):
        return {'data': (id(self._buf) * 64 + self._off, not self.flags._writeable),
                'shape': self._shape, 'typestr': self._dtype.str, 'version': 3}

    def __len__(self):
        if not self._shape:
            raise TypeError('len() of unsized object')
        return self._shape[0]

    def _is_contiguous(self):
        return self._st == _c_strides(self._shape) or self.size <= 1

    def _positions(self):
        """Buffer positions of all elements in C order."""
        sh, st, off = self._shape, self._st, self._off
        if len(sh) == 0:
            return [off]
        if len(sh) == 1:
            s0 = st[0]
            return [off + i * s0 for i in range(sh[0])]
        if len(sh) == 2:
            s0, s1 = st
            return [off + i * s0 + j * s1 for i in range(sh[0]) for j in range(sh[1])]
        raise ModelGap('ndim > 2')

    def _cells(self):
        buf = self._buf
        return [buf[p] for p in self._positions()]

    def _root(self):
        return self if self.base is None else self.base

    # ---------------------------------------------------------------- python protocol
    def __iter__(self):
        if not self._shape:
            raise TypeError('iteration over a 0-d array')
        for i in range(self._shape[0]):
            yield self[i]

    def __bool__(self):
        if self.size == 1:
            return bool(self._cells()[0])
        if self.size == 0:
            raise ValueError('The truth value of an empty array is ambiguous.')
        raise ValueError('The truth value of an array with more than one element is ambiguous. Use a.any() or a.all()')

    def __index__(self):
        if self.size == 1 and self._dtype.kind in 'iu':
            return self._cells()[0]
        raise TypeError('only integer scalar arrays can be converted to a scalar index')

    def __int__(self):
        if self.size == 1:
            return int(self._cells()[0])
        raise TypeError('only length-1 arrays can be converted to Python scalars')

    def __float__(self):
        if self.size == 1:
            return float(self._cells()[0])
        raise TypeError('only length-1 arrays can be converted to Python scalars')

    def __contains__(self, item):
        for c in self._cells():
            if c == item:
                return True
        return False

    def __repr__(self):
        try:
            return f'model_array({self.tolist()!r}, dtype={self._dtype}, shape={self._shape})'
        except BaseException:
            return f'model_array(<unprintable>, dtype={self._dtype}, shape={self._shape})'

    __str__ = __repr__

    def __copy__(self):
        return self.copy()

    def __deepcopy__(self, memo):
        from copy import deepcopy
        if self._dtype.kind == 'O':
            cells = [deepcopy(c, memo) for c in self._cells()]
        else:
            cells = self._cells()
        return ndarray._from_cells(cells, self._shape, self._dtype)

    def __reduce__(self):
        return (_rebuild, (self._cells(), self._shape, self._dtype.str if self._dtype.kind != 'O' else 'O',
                           self.flags._writeable))

    def __getstate__(self):
        raise ModelGap('ndarray.__getstate__')

    # ---------------------------------------------------------------- indexing
    def _axis_spec(self, k, n):
        """Classify a single-axis key.  Returns (kind, payload):
        ('int', pos) | ('slice', (positions, start, step)) | ('fancy', (positions, shape))"""
        if isinstance(k, bool):
            raise ModelGap('bool scalar used as index')
        if isinstance(k, (int, _np.integer)):
            i = k
            if i < 0:
                i = i + n
            if i < 0 or i >= n:
                raise IndexError(f'index {_safe(k)} is out of bounds for axis with size {n}')
            return 'int', cint(i, 0, n)
        if isinstance(k, slice):
            return 'slice', slice_positions(k, n)
        if isinstance(k, ndarray):
            if k._dtype.kind == 'b':
                if k.ndim != 1:
                    raise ModelGap('n-d Boolean key on a single axis')
                if k._shape[0] != n:
                    raise IndexError(f'boolean index did not match indexed array along axis; size of axis is {n} but size of corresponding boolean axis is {k._shape[0]}')
                pos = [i for i, c in enumerate(k._cells()) if c]
                return 'fancy', (pos, (len(pos),))
            if k._dtype.kind in 'iu':
                pos = [self._norm_pos(c, n) for c in k._cells()]
                return 'fancy', (pos, k._shape)
            if k.size == 0 and k._dtype.kind == 'f':
                raise IndexError('arrays used as indices must be of integer (or boolean) type')
            raise IndexError('arrays used as indices must be of integer (or boolean) type')
        if isinstance(k, (list, tuple)):
            if len(k) == 0:
                return 'fancy', ([], (0,))
            first = k[0]
            if isinstance(first, (list, tuple)):
                rows = [list(r) for r in k]
                w = len(rows[0])
                for r in rows:
                    if len(r) != w:
                        raise ModelGap('ragged nested index')
                pos = [self._norm_pos(c, n) for r in rows for c in r]
                return 'fancy', (pos, (len(rows), w))
            if isinstance(first, (bool, _np.bool_)):
                if len(k) != n:
                    raise IndexError('boolean index did not match indexed array')
                pos = [i for i, c in enumerate(k) if c]
                return 'fancy', (pos, (len(pos),))
            pos = [self._norm_pos(c, n) for c in k]
            return 'fancy', (pos, (len(pos),))
        if k is None:
            raise ModelGap('newaxis / None index')
        if k is Ellipsis:
            raise ModelGap('Ellipsis index')
        if hasattr(k, '__index__'):
            return self._axis_spec(k.__index__(), n)
        raise IndexError('only integers, slices (`:`), ellipsis (`...`), numpy.newaxis (`None`) and integer or boolean arrays are valid indices')

    @staticmethod
    def _norm_pos(c, n):
        if isinstance(c, bool):
            raise ModelGap('bool inside integer index list')
        if not isinstance(c, (int, _np.integer)):
            raise IndexError('arrays used as indices must be of integer (or boolean) type')
        i = c
        if i < 0:
            i = i + n
        if i < 0 or i >= n:
            raise IndexError(f'index {_safe(c)} is out of bounds for axis 0 with size {n}')
        return cint(i, 0, n)

    def _resolve(self, key):
        """Resolve a key into (positions, result_shape, view_info).
        view_info is (off, shape, strides) when the selection is expressible as a view, else None."""
        nd = self.ndim
        if key is Ellipsis:
            return self._positions(), self._shape, (self._off, self._shape, self._st)
        if nd == 0:
            if key == ():
                return [self._off], (), (self._off, (), ())
            raise IndexError('too many indices for array: array is 0-dimensional')
        # whole-array Boolean mask
        if isinstance(key, ndarray) and key._dtype.kind == 'b' and key.ndim == nd and nd == 2:
            if key._shape != self._shape:
                raise IndexError('boolean index did not match indexed array')
            pos = [p for p, c in zip(self._positions(), key._cells()) if c]
            return pos, (len(pos),), None
        if not isinstance(key, tuple):
            key = (key,)
        if len(key) > nd:
            raise IndexError(f'too many indices for array: array is {nd}-dimensional, but {len(key)} were indexed')
        if len(key) < nd:
            key = key + (slice(None),) * (nd - len(key))
        specs = [self._axis_spec(k, n) for k, n in zip(key, self._shape)]
        if nd == 1:
            kind, p = specs[0]
            s0, off = self._st[0], self._off
            if kind == 'int':
                return [off + p * s0], (), (off + p * s0, (), ())
            if kind == 'slice':
                pos, start, step = p
                return ([off + i * s0 for i in pos], (len(pos),),
                        (off + start * s0, (len(pos),), (s0 * step,)))
            pos, shp = p
            return [off + i * s0 for i in pos], shp, None
        # nd == 2
        (k0, p0), (k1, p1) = specs
        s0, s1 = self._st
        off = self._off
        if k0 != 'fancy' and k1 != 'fancy':
            if k0 == 'int':
                rows, rshape, roff, rst = [p0], (), p0 * s0, ()
            else:
                rows, rstart, rstep = p0
                rshape, roff, rst = (len(rows),), rstart * s0, (s0 * rstep,)
            if k1 == 'int':
                cols, cshape, coff, cst = [p1], (), p1 * s1, ()
            else:
                cols, cstart, cstep = p1
                cshape, coff, cst = (len(cols),), cstart * s1, (s1 * cstep,)
            pos = [off + i * s0 + j * s1 for i in rows for j in cols]
            shape = rshape + cshape
            return pos, shape, (off + roff + coff, shape, rst + cst)
        if k0 == 'fancy' and k1 == 'fancy':
            # both advanced: broadcast the two index arrays together (NumPy "advanced indexing")
            rp, rs = p0
            cp, cs = p1
            bshape = _broadcast_shapes(rs, cs)
            ri = _broadcast_flat(rp, rs, bshape)
            ci = _broadcast_flat(cp, cs, bshape)
            pos = [off + i * s0 + j * s1 for i, j in zip(ri, ci)]
            return pos, bshape, None
        if k0 == 'fancy':
            rp, rs = p0
            if len(rs) != 1:
                raise ModelGap('2-d fancy row index with basic column index')
            if k1 == 'int':
                return [off + i * s0 + p1 * s1 for i in rp], rs, None
            cols = p1[0]
            return [off + i * s0 + j * s1 for i in rp for j in cols], rs + (len(cols),), None
        cp, cs = p1
        if len(cs) != 1:
            raise ModelGap('2-d fancy column index with basic row index')
        if k0 == 'int':
            return [off + p0 * s0 + j * s1 for j in cp], cs, None
        rows = p0[0]
        return [off + i * s0 + j * s1 for i in rows for j in cp], (len(rows),) + cs, None

    def __getitem__(self, key):
        if isinstance(key, str):
            raise IndexError('only integers, slices (`:`), ellipsis (`...`), numpy.newaxis (`None`) and integer or boolean arrays are valid indices')
        pos, shape, view = self._resolve(key)
        if view is not None:
            if shape == ():
                return self._scalar(self._buf[pos[0]])
            off, vshape, vst = view
            return ndarray._new(self._buf, off, vshape, vst, self._dtype,
                    writeable=self.flags._writeable, base=self._root())
        buf = self._buf
        return ndarray._from_cells([buf[p] for p in pos], shape, self._dtype)

    def _scalar(self, v):
        if self._dtype.kind == 'b' and v is not POISON:
            return BoolScalar(v)
        return v

    def __setitem__(self, key, value):
        if not self.flags._writeable:
            raise ValueError('assignment destination is read-only')
        if not self._buf.sym and not in_fast_path() and not conc(value):
            self._buf.sym = True
        pos, shape, _ = self._resolve(key)
        dt = self._dtype
        buf = self._buf
        if isinstance(value, ndarray):
            if value.ndim == 0:
                v = cast_cell(value._cells()[0], dt, assign=True)
                for p in pos:
                    buf[p] = v
                return
            if shape == () and dt.kind != 'O':
                # NumPy 2: only a 0-d array converts to a scalar; a size-1 array of ndim >= 1 does not
                raise ValueError('setting an array element with a sequence.')
            cells = _broadcast_flat(value._cells(), value._shape, shape, assign=True)
            if dt.kind != 'O' and value._dtype != dt:
                cells = [cast_cell(c, dt, assign=True) for c in cells]
            for p, c in zip(pos, cells):
                buf[p] = c
            return
        if dt.kind == 'O' and shape == ():
            buf[pos[0]] = norm_cell(value)
            return
        if isinstance(value, (list, tuple)) or (
                hasattr(value, '__len__') and hasattr(value, '__getitem__') and not isinstance(value, (str, bytes, dict))):
            if shape == ():
                if dt.kind == 'O':
                    buf[pos[0]] = value
                    return
                raise ValueError('setting an array element with a sequence.')
            if dt.kind == 'O':
                # object destinations: NumPy discovers at most as many sequence levels as the target has
                # dimensions, deeper levels stay Python objects (so a list of tuples fills a 1-D array)
                src = _object_seq(value, len(shape))
            else:
                src = asarray_seq(value, None)
            cells = _broadcast_flat(src._cells(), src._shape, shape, assign=True)
            cells = [cast_cell(c, dt, assign=True) for c in cells]
            for p, c in zip(pos, cells):
                buf[p] = c
            return
        v = cast_cell(norm_cell(value), dt, assign=True)
        for p in pos:
            buf[p] = v

    # ---------------------------------------------------------------- conversion / copying
    def copy(self, order='C'):
        return ndarray._from_cells(self._cells(), self._shape, self._dtype)

    def astype(self, dtype, copy=True):
        dt = as_dtype(dtype)
        cells = self._cells()
        if (self._dtype.kind in 'Mm' or dt.kind in 'Mm') and dt != self._dtype:
            # datetime64/timedelta64 conversions are delegated to the real NumPy (concrete cells only)
            if any(is_symbolic(c) for c in cells):
                raise ModelGap('symbolic cell in datetime conversion')
            return from_real(to_real(self).astype(dt))
        if dt.kind == 'U' and _str_width(dt) == 0:
            cast = [cast_cell(c, dt) for c in cells]
            n = 1
            for c in cast:
                w = cell_strlen(c)
                if w > n:
                    n = w
            if self._dtype.kind in 'iu':
                n = max(n, 21)
            elif self._dtype.kind == 'f':
                n = max(n, 32)
            elif self._dtype.kind == 'b':
                n = max(n, 5)
            return ndarray._from_cells(cast, self._shape, str_dtype(n))
        if dt == self._dtype and not copy:
            return self
        if dt == self._dtype:
            return self.copy()
        return ndarray._from_cells([cast_cell(c, dt) for c in cells], self._shape, dt)

    def _rows(self, cells=None):
        """cells as nested lists (model cells as they are: internal use)"""
        cells = self._cells() if cells is None else cells
        if self.ndim == 0:
            return cells[0]
        if self.ndim == 1:
            return cells
        w = self._shape[1]
        return [cells[i * w:(i + 1) * w] for i in range(self._shape[0])]

    def tolist(self):
        cells = self._cells()
        if self._dtype.kind in 'Mm':
            # ndarray.tolist() converts to the nearest Python type: datetime64[D] -> date, [s] -> datetime, [ns] -> int ...
            cells = [(c.item() if isinstance(c, _np.generic) else c) for c in cells]
        return self._rows(cells)

    def item(self, *a):
        if a:
            raise ModelGap('item(args)')
        if self.size != 1:
            raise ValueError('can only convert an array of size 1 to a Python scalar')
        return self._cells()[0]

    def fill(self, value):
        self[...] = value

    def reshape(self, *shape, order='C'):
        if len(shape) == 1 and isinstance(shape[0], (tuple, list)):
            shape = tuple(shape[0])
        elif len(shape) == 1 and shape[0] is not None and not isinstance(shape[0], tuple):
            shape = (shape[0],)
        shape = tuple(cint(s, -1, 1 << 20, 'reshape dim') for s in shape)
        size = self.size
        if -1 in shape:
            known = 1
            for s in shape:
                if s != -1:
                    known *= s
            if shape.count(-1) != 1 or (known == 0 and size != 0) or (known and size % known):
                raise ValueError(f'cannot reshape array of size {size} into shape {shape}')
            fill = size // known if known else 0
            shape = tuple(fill if s == -1 else s for s in shape)
        if _prod(shape) != size:
            raise ValueError(f'cannot reshape array of size {size} into shape {shape}')
        if len(shape) > 2:
            raise ModelGap('reshape to ndim > 2')
        if self._is_contiguous():
            return ndarray._new(self._buf, self._off, shape, _c_strides(shape), self._dtype,
                    writeable=self.flags._writeable, base=self._root())
        # 1-D strided -> (n,1) / (1,n) can still be a view
        if self.ndim == 1 and len(shape) == 2 and (shape[1] == 1 or shape[0] == 1):
            s = self._st[0]
            st = (s, 1) if shape[1] == 1 else (1, s)
            return ndarray._new(self._buf, self._off, shape, st, self._dtype,
                    writeable=self.flags._writeable, base=self._root())
        if self.ndim == 2 and len(shape) == 1 and (self._shape[0] == 1 or self._shape[1] == 1):
            s = self._st[1] if self._shape[0] == 1 else self._st[0]
            return ndarray._new(self._buf, self._off, shape, (s,), self._dtype,
                    writeable=self.flags._writeable, base=self._root())
        return ndarray._from_cells(self._cells(), shape, self._dtype)

    def flatten(self, order='C'):
        return ndarray._from_cells(self._cells(), (self.size,), self._dtype)

    def ravel(self, order='C'):
        return self.reshape(self.size)

    def transpose(self, *axes):
        if axes and axes not in (((1, 0),), (1, 0), (None,), ((0,),), (0,)):
            raise ModelGap('transpose with axes ' + repr(axes))
        return ndarray._new(self._buf, self._off, tuple(reversed(self._shape)), tuple(reversed(self._st)),
                self._dtype, writeable=self.flags._writeable, base=self._root())

    @property
    def T(self):
        return self.transpose()

    @property
    def flat(self):
        return iter(self._cells())

    @property
    def real(self):
        return self

    def view(self, *a, **kw):
        if not a and not kw:
            return ndarray._new(self._buf, self._off, self._shape, self._st, self._dtype,
                    writeable=self.flags._writeable, base=self._root())
        # the one re-interpreting view static-frame uses (util._ufunc_set_2d): a C-contiguous 2-D array of ONE dtype seen as a
        # column of records of `width` unnamed fields of that dtype (records compare field by field, like the tuples that
        # stand for them here), and such a record array seen again as its flat cells
        dt = a[0] if a else kw.get('dtype')
        if isinstance(dt, list) and self.ndim == 2 and len(dt) == self._shape[1] and _builtin_all(
                isinstance(f, tuple) and len(f) == 2 and f[0] == '' and as_dtype(f[1]) == self._dtype for f in dt):
            rows = self._rows()
            return ndarray._from_cells([tuple(r) for r in rows], (len(rows), 1), _np.dtype(dt))
        if self._dtype.names is not None and not isinstance(dt, list):
            dt = as_dtype(dt)
            if _builtin_all(self._dtype[n] == dt for n in self._dtype.names):
                cells = [c for t in self._cells() for c in t]
                if self.ndim == 1:
                    return ndarray._from_cells(cells, (len(cells),), dt)
                if self.ndim == 2 and self._shape[1] == 1:
                    return ndarray._from_cells(cells, (self._shape[0], len(self._dtype.names)), dt)
        raise ModelGap('ndarray.view(dtype)')

    def searchsorted(self, *a, **kw):
        raise ModelGap('searchsorted')

    def byteswap(self, *a, **kw):
        raise ModelGap('byteswap')

    # ---------------------------------------------------------------- reductions (delegated)
    def all(self, axis=None, out=None, **kw):
        from . import funcs
        return funcs._all_impl(self, axis=axis, out=out)

    def any(self, axis=None, out=None, **kw):
        from . import funcs
        return funcs._any_impl(self, axis=axis, out=out)

    def sum(self, axis=None, dtype=None, out=None, **kw):
        from . import funcs
        return funcs.sum(self, axis=axis, out=out)

    def min(self, axis=None, out=None, **kw):
        from . import funcs
        return funcs.min(self, axis=axis, out=out)

    def max(self, axis=None, out=None, **kw):
        from . import funcs
        return funcs.max(self, axis=axis, out=out)

    def prod(self, axis=None, dtype=None, out=None, **kw):
        from . import funcs
        return funcs.prod(self, axis=axis, out=out)

    def mean(self, axis=None, dtype=None, out=None, **kw):
        from . import funcs
        return funcs.mean(self, axis=axis, out=out)

    def cumsum(self, axis=None, dtype=None, out=None):
        from . import funcs
        return funcs.cumsum(self, axis=axis, out=out)

    def argmin(self, axis=None, out=None):
        from . import funcs
        return funcs.argmin(self, axis=axis)

    def argmax(self, axis=None, out=None):
        from . import funcs
        return funcs.argmax(self, axis=axis)

    def nonzero(self):
        from . import funcs
        return funcs.nonzero(self)

    def argsort(self, axis=-1, kind=None, order=None):
        from . import funcs
        return funcs.argsort(self, axis=axis, kind=kind)

    def sort(self, axis=-1, kind=None, order=None):
        from . import funcs
        if not self.flags._writeable:
            raise ValueError('sort array is read-only')
        s = funcs.sort(self, axis=axis, kind=kind)
        _mark(self._buf)
        for p, c in zip(self._positions(), s._cells()):
            self._buf[p] = c

    def repeat(self, repeats, axis=None):
        from . import funcs
        return funcs.repeat(self, repeats, axis=axis)

    def round(self, decimals=0, out=None):
        raise ModelGap('round')

    def clip(self, *a, **kw):
        raise ModelGap('clip')

    def dot(self, *a, **kw):
        raise ModelGap('dot')

    # ---------------------------------------------------------------- operators
    def __eq__(self, other): return _binop('eq', self, other)
    def __ne__(self, other): return _binop('ne', self, other)
    def __lt__(self, other): return _binop('lt', self, other)
    def __le__(self, other): return _binop('le', self, other)
    def __gt__(self, other): return _binop('gt', self, other)
    def __ge__(self, other): return _binop('ge', self, other)
    def __add__(self, other): return _binop('add', self, other)
    def __radd__(self, other): return _binop('add', other, self)
    def __sub__(self, other): return _binop('sub', self, other)
    def __rsub__(self, other): return _binop('sub', other, self)
    def __mul__(self, other): return _binop('mul', self, other)
    def __rmul__(self, other): return _binop('mul', other, self)
    def __floordiv__(self, other): return _binop('floordiv', self, other)
    def __rfloordiv__(self, other): return _binop('floordiv', other, self)
    def __mod__(self, other): return _binop('mod', self, other)
    def __rmod__(self, other): return _binop('mod', other, self)
    def __truediv__(self, other): return _binop('truediv', self, other)
    def __rtruediv__(self, other): return _binop('truediv', other, self)
    def __pow__(self, other): return _binop('pow', self, other)
    def __rpow__(self, other): return _binop('pow', other, self)
    def __and__(self, other): return _binop('and', self, other)
    def __rand__(self, other): return _binop('and', other, self)
    def __or__(self, other): return _binop('or', self, other)
    def __ror__(self, other): return _binop('or', other, self)
    def __xor__(self, other): return _binop('xor', self, other)
    def __rxor__(self, other): return _binop('xor', other, self)
    def __matmul__(self, other): raise ModelGap('matmul')
    def __rmatmul__(self, other): raise ModelGap('matmul')

    def _inplace(self, op, other):
        if not self.flags._writeable:
            raise ValueError('output array is read-only')
        res = _binop(op, self, other)
        if res._shape != self._shape:
            raise ValueError('non-broadcastable output operand')
        dt = self._dtype
        if res._dtype != dt:
            if not _np.can_cast(res._dtype, dt, 'same_kind'):
                raise TypeError(f"Cannot cast ufunc output from {res._dtype} to {dt} with casting rule 'same_kind'")
            cells = [cast_cell(c, dt) for c in res._cells()]
        else:
            cells = res._cells()
        _mark(self._buf)
        for p, c in zip(self._positions(), cells):
            self._buf[p] = c
        return self

    def __iadd__(self, other): return self._inplace('add', other)
    def __isub__(self, other): return self._inplace('sub', other)
    def __imul__(self, other): return self._inplace('mul', other)
    def __iand__(self, other): return self._inplace('and', other)
    def __ior__(self, other): return self._inplace('or', other)
    def __ixor__(self, other): return self._inplace('xor', other)

    def __invert__(self):
        k = self._dtype.kind
        if k == 'b':
            return ndarray._from_cells([_not(c) for c in self._cells()], self._shape, self._dtype)
        if k in 'iu':
            return ndarray._from_cells([-c - 1 for c in self._cells()], self._shape, self._dtype)
        if k == 'O':
            return ndarray._from_cells([~c for c in self._cells()], self._shape, self._dtype)
        raise TypeError("ufunc 'invert' not supported for the input types")

    def __neg__(self):
        k = self._dtype.kind
        if k == 'b':
            raise TypeError('The numpy boolean negative, the `-` operator, is not supported, use the `~` operator or the logical_not function instead.')
        if k in 'iufO':
            return ndarray._from_cells([-c for c in self._cells()], self._shape, self._dtype)
        raise TypeError("ufunc 'negative' did not contain a loop with signature matching types")

    def __pos__(self):
        if self._dtype.kind in 'biufO':
            return self.copy()
        raise TypeError("ufunc 'positive' did not contain a loop with signature matching types")

    def __abs__(self):
        k = self._dtype.kind
        if k == 'b':
            return self.copy()
        if k in 'iufO':
            return ndarray._from_cells([abs(c) for c in self._cells()], self._shape, self._dtype)
        raise TypeError("bad operand type for abs()")


def to_real(a):
    """Concrete model array -> real numpy array (used only for datetime/timedelta delegation)."""
    cells = a._cells()
    if a._dtype.kind == 'O':
        r = _np.empty(len(cells), dtype=object)
        for i, c in enumerate(cells):
            r[i] = c
    else:
        r = _np.array(cells, dtype=a._dtype) if cells else _np.empty(0, dtype=a._dtype)
    return r.reshape(a._shape)


def from_real(r):
    cells = [norm_cell(c) for c in (r.reshape(-1).tolist() if r.dtype.kind == 'O' else list(r.reshape(-1)))]
    return ndarray._from_cells(cells, r.shape, r.dtype)


def _mark(buf):
    """A direct buffer write outside the concrete fast path may store a symbolic cell."""
    if not in_fast_path():
        buf.sym = True


def _rebuild(cells, shape, dtstr, writeable):
    # NumPy does not pickle the WRITEABLE flag: an unpickled array owns fresh, writeable data
    return ndarray._from_cells(cells, shape, _np.dtype(dtstr))


def _safe(v):
    return '<sym>' if is_symbolic(v) else v


def _not(c):
    if c is POISON:
        return POISON
    return c == False  # noqa: E712  (stays symbolic under CrossHair; `not` would fork)


def as_dtype(dtype):
    if isinstance(dtype, _np.dtype):
        return dtype
    if dtype is None:
        return DT_FLOAT
    if dtype is _np.dtype:
        raise TypeError('Cannot convert np.dtype into a dtype.')
    if dtype is int:
        return DT_INT
    if dtype is float:
        return DT_FLOAT
    if dtype is bool:
        return DT_BOOL
    if dtype is object:
        return DT_OBJECT
    return _np.dtype(dtype)


# ---------------------------------------------------------------------------------------------
# broadcasting

def _broadcast_shapes(a, b):
    a, b = tuple(a), tuple(b)
    n = max(len(a), len(b))
    a2 = (1,) * (n - len(a)) + a
    b2 = (1,) * (n - len(b)) + b
    out = []
    for x, y in zip(a2, b2):
        if x == y or y == 1:
            out.append(x)
        elif x == 1:
            out.append(y)
        else:
            raise ValueError(f'operands could not be broadcast together with shapes {a} {b} ')
    return tuple(out)


def _broadcast_flat(cells, shape, target, assign=False):
    """Return cells of an array of `shape` broadcast to `target` (flat, C order)."""
    shape, target = tuple(shape), tuple(target)
    if shape == target:
        return cells
    if len(shape) > len(target):
        # NumPy allows leading length-1 axes to be dropped on assignment
        while len(shape) > len(target) and shape and shape[0] == 1:
            shape = shape[1:]
        if len(shape) > len(target):
            raise ValueError(f'could not broadcast input array from shape {shape} into shape {target}')
        if shape == target:
            return cells
    pad = (1,) * (len(target) - len(shape)) + shape
    for s, t in zip(pad, target):
        if s != t and s != 1:
            if assign:
                raise ValueError(f'could not broadcast input array from shape {shape} into shape {target}')
            raise ValueError(f'operands could not be broadcast together with shapes {shape} {target} ')
    if len(target) == 0:
        return cells
    if len(target) == 1:
        return [cells[0]] * target[0] if pad[0] == 1 and target[0] != 1 else cells
    if len(target) == 2:
        r, c = target
        pr, pc = pad
        out = []
        for i in range(r):
            ii = 0 if pr == 1 else i
            for j in range(c):
                jj = 0 if pc == 1 else j
                out.append(cells[ii * pc + jj])
        return out
    raise ModelGap('broadcast to ndim > 2')


# ---------------------------------------------------------------------------------------------
# element-wise binary operators

_CMP = ('eq', 'ne', 'lt', 'le', 'gt', 'ge')


def _cell_binop(op, a, b, obj=False):
    if op not in _CMP and ((isinstance(a, float) and is_symbolic(b) and not is_nan(a)) or (
            isinstance(b, float) and is_symbolic(a) and not is_nan(b))):
        raise ModelGap('arithmetic between a concrete float and a symbolic int')
    if op == 'eq':
        if is_nan(a) or is_nan(b) or a is POISON or b is POISON:
            return False
        return num_eq(a, b)
    if op == 'ne':
        if is_nan(a) or is_nan(b) or a is POISON or b is POISON:
            return True
        return num_eq(a, b) == False  # noqa: E712
    if op in ('lt', 'le', 'gt', 'ge'):
        if is_nan(a) or is_nan(b) or a is POISON or b is POISON:
            return False
        if op == 'lt':
            return num_lt(a, b)
        if op == 'le':
            return num_lt(b, a) == False  # noqa: E712
        if op == 'gt':
            return num_lt(b, a)
        return num_lt(a, b) == False  # noqa: E712
    if a is POISON or b is POISON:
        return POISON
    if op in ('and', 'or', 'xor'):
        if op == 'and':
            return a & b
        if op == 'or':
            return a | b
        return a ^ b
    if is_nan(a) or is_nan(b):
        if not obj or (isinstance(a, (int, float)) or is_nan(a)) and (isinstance(b, (int, float)) or is_nan(b)):
            return NAN
    if op == 'add':
        return a + b
    if op == 'sub':
        return a - b
    if op == 'mul':
        return a * b
    if op == 'floordiv':
        if not obj and not isinstance(b, float) and b == 0:
            return 0  # numpy integer floor-division by zero gives 0 with a RuntimeWarning
        return a // b
    if op == 'mod':
        if not obj and not isinstance(b, float) and b == 0:
            return 0
        return a % b
    if op == 'truediv':
        raise ModelGap('true division (floating point)')
    if op == 'pow':
        raise ModelGap('power')
    raise ModelGap('operator ' + op)


def _operand(x):
    """-> (cells, shape, dtype_or_None, is_array)"""
    if isinstance(x, ndarray):
        return x._cells(), x._shape, x._dtype, True
    if isinstance(x, (list, tuple)):
        a = asarray_seq(x, None)
        return a._cells(), a._shape, a._dtype, True
    x = norm_cell(x)
    return [x], (), None, False


def _binop(op, left, right):
    # defer to static-frame containers (they define __array_priority__ / reflected operators)
    for o in (left, right):
        if not isinstance(o, ndarray) and hasattr(o, '__array_priority__') and not isinstance(o, _np.generic):
            if getattr(o, '__array_priority__', 0) > ndarray.__array_priority__:
                return NotImplemented
    lc, ls, ld, la = _operand(left)
    rc, rs, rd, ra = _operand(right)
    # dtype of the result
    if ld is None:
        ld2 = _scalar_result_dtype(lc[0], rd)
    else:
        ld2 = ld
    if rd is None:
        rd2 = _scalar_result_dtype(rc[0], ld)
    else:
        rd2 = rd
    kinds = (ld2.kind, rd2.kind)
    obj = 'O' in kinds
    if op in _CMP:
        # NumPy 2: comparing str arrays with numeric arrays: == gives all-False via UFuncTypeError?
        str_l, str_r = kinds[0] in 'US', kinds[1] in 'US'
        if (str_l ^ str_r) and not obj:
            if op in ('eq', 'ne'):
                shape = _broadcast_shapes(ls, rs)
                return ndarray._from_cells([op == 'ne'] * _prod(shape), shape, DT_BOOL)
            raise TypeError(f"'{op}' not supported between str and numeric arrays")
        shape = _broadcast_shapes(ls, rs)
        a = _broadcast_flat(lc, ls, shape)
        b = _broadcast_flat(rc, rs, shape)
        if obj:
            cells = [_obj_cmp(op, x, y) for x, y in zip(a, b)]
            return ndarray._from_cells(cells, shape, DT_BOOL)
        return ndarray._from_cells([_cell_binop(op, x, y) for x, y in zip(a, b)], shape, DT_BOOL)
    shape = _broadcast_shapes(ls, rs)
    a = _broadcast_flat(lc, ls, shape)
    b = _broadcast_flat(rc, rs, shape)
    if op in ('and', 'or', 'xor'):
        if obj:
            return ndarray._from_cells([_cell_binop(op, x, y, True) for x, y in zip(a, b)], shape, DT_OBJECT)
        if kinds[0] in 'fc' or kinds[1] in 'fc' or kinds[0] in 'USMm' or kinds[1] in 'USMm':
            raise TypeError(f"ufunc 'bitwise_{op}' not supported for the input types, and the inputs could not be safely coerced to any supported types according to the casting rule ''safe''")
        rdt = _np.result_type(ld2, rd2)
        if rdt.kind == 'b':
            return ndarray._from_cells([_cell_binop(op, x, y) for x, y in zip(a, b)], shape, rdt)
        a = [cast_cell(x, rdt) for x in a]
        b = [cast_cell(x, rdt) for x in b]
        if any(is_symbolic(x) for x in a) or any(is_symbolic(x) for x in b):
            raise ModelGap('bitwise operator on symbolic integers')
        return ndarray._from_cells([_cell_binop(op, x, y) for x, y in zip(a, b)], shape, rdt)
    # arithmetic
    if obj:
        return ndarray._from_cells([_cell_binop(op, x, y, True) for x, y in zip(a, b)], shape, DT_OBJECT)
    for k in kinds:
        if k in 'US':
            raise TypeError(f"ufunc '{op}' did not contain a loop with signature matching types")
        if k in 'Mmc':
            raise ModelGap('arithmetic on dtype kind ' + k)
    rdt = _np.result_type(ld2, rd2)
    if rdt.kind == 'b':
        if op == 'add':
            return ndarray._from_cells([x | y for x, y in zip(a, b)], shape, rdt)
        if op == 'mul':
            return ndarray._from_cells([x & y for x, y in zip(a, b)], shape, rdt)
        if op == 'sub':
            raise TypeError('numpy boolean subtract, the `-` operator, is not supported, use the bitwise_xor, the `^` operator, or the logical_xor function instead.')
        rdt = _np.dtype(_np.int8)
    if op == 'truediv':
        raise ModelGap('true division (floating point)')
    a = [cast_cell(x, rdt) for x in a]
    b = [cast_cell(x, rdt) for x in b]
    return ndarray._from_cells([_cell_binop(op, x, y) for x, y in zip(a, b)], shape, rdt)


def _obj_cmp(op, x, y):
    if op == 'eq':
        if is_nan(x) or is_nan(y):
            return False
        r = x == y
    elif op == 'ne':
        if is_nan(x) or is_nan(y):
            return True
        r = x != y
    elif is_nan(x) or is_nan(y):
        return False
    elif op == 'lt':
        r = x < y
    elif op == 'le':
        r = x <= y
    elif op == 'gt':
        r = x > y
    else:
        r = x >= y
    if r is NotImplemented:
        raise TypeError('unorderable')
    if isinstance(r, (bool, _np.bool_)):
        return r
    if isinstance(r, ndarray):
        raise ValueError('The truth value of an array with more than one element is ambiguous.')
    return bool(r)


def _scalar_result_dtype(v, other_dt):
    """dtype a Python scalar contributes in a binary operation (NEP 50 weak promotion)."""
    if isinstance(v, _np.generic):
        return v.dtype
    k = cell_kind(v)
    if k == 'b':
        return DT_BOOL
    if k == 'i':
        if other_dt is not None and other_dt.kind in 'iuf':
            return other_dt
        return DT_INT
    if k == 'f':
        if other_dt is not None and other_dt.kind == 'f':
            return other_dt
        return DT_FLOAT
    if k == 'U':
        return str_dtype(cell_strlen(v))
    if k == 'O':
        return DT_OBJECT
    return scalar_dtype(v)


# ---------------------------------------------------------------------------------------------
# array construction from Python sequences (np.array semantics)

def _is_seq(v):
    return isinstance(v, (list, tuple, ndarray, range))


def asarray_seq(values, dtype):
    """np.array(values, dtype=dtype) for values a Python sequence / model array / scalar."""
    dt = None if dtype is None else as_dtype(dtype)
    if isinstance(values, ndarray):
        if dt is None or dt == values._dtype:
            return values.copy()
        return values.astype(dt)
    if isinstance(values, _np.ndarray):
        raise ModelGap('real ndarray handed to the model')
    if isinstance(values, (str, bytes)) or not hasattr(values, '__len__') or isinstance(values, (dict, set, frozenset)):
        if hasattr(values, '__iter__') and not isinstance(values, (str, bytes, dict, set, frozenset)):
            # generators: np.array(gen) gives a 0-d object array
            return ndarray._from_cells([values], (), DT_OBJECT)
        v = norm_cell(values)
        d = scalar_dtype(v) if dt is None else dt
        if d.kind == 'U' and _str_width(d) == 0:
            d = str_dtype(cell_strlen(cast_cell(v, d)))
        return ndarray._from_cells([cast_cell(v, d)], (), d)
    seq = list(values)
    n = len(seq)
    if n == 0:
        return ndarray._from_cells([], (0,), DT_FLOAT if dt is None else dt)
    nested = [isinstance(v, (list, tuple, ndarray, range)) for v in seq]
    if any(nested):
        if not all(nested):
            if dt is not None and dt.kind == 'O':
                return ndarray._from_cells([norm_cell(v) for v in seq], (n,), DT_OBJECT)
            raise ValueError('setting an array element with a sequence. The requested array has an inhomogeneous shape after 1 dimensions.')
        rows = [v._cells() if isinstance(v, ndarray) else list(v) for v in seq]
        for v in seq:
            if isinstance(v, ndarray) and v.ndim != 1:
                raise ModelGap('np.array of a sequence of 2-d arrays')
        w = len(rows[0])
        if any(len(r) != w for r in rows):
            if dt is not None and dt.kind == 'O':
                return ndarray._from_cells(list(seq), (n,), DT_OBJECT)
            raise ValueError('setting an array element with a sequence. The requested array has an inhomogeneous shape after 1 dimensions.')
        for r in rows:
            for c in r:
                if isinstance(c, (list, tuple, ndarray)):
                    if dt is not None and dt.kind == 'O':
                        continue
                    raise ModelGap('np.array with nesting depth > 2')
        cells = [norm_cell(c) for r in rows for c in r]
        if dt is None:
            arr_dts = [v._dtype for v in seq if isinstance(v, ndarray)]
            if arr_dts and len(arr_dts) == n:
                d = arr_dts[0]
                for x in arr_dts[1:]:
                    d = _np.result_type(d, x)
            else:
                d = infer_dtype(cells)
        else:
            d = dt
        d = _size_str_dtype(d, cells)
        return ndarray._from_cells([cast_cell(c, d) for c in cells], (n, w), d)
    cells = [norm_cell(c) for c in seq]
    if dt is not None and dt.kind in 'Mm':
        if any(is_symbolic(c) for c in cells):
            raise ModelGap('symbolic value in datetime64 array')
        real = _np.array([None if is_nan(c) else c for c in cells], dtype=dt)
        return ndarray._from_cells(list(real), (n,), real.dtype)
    d = infer_dtype(cells) if dt is None else dt
    d = _size_str_dtype(d, cells)
    return ndarray._from_cells([cast_cell(c, d) for c in cells], (n,), d)


def _object_seq(value, maxdepth):
    seq = list(value)
    if maxdepth <= 1:
        return ndarray._from_cells([norm_cell(c) for c in seq], (len(seq),), DT_OBJECT)
    if seq and all(isinstance(r, (list, tuple, ndarray)) for r in seq):
        rows = [r._cells() if isinstance(r, ndarray) else list(r) for r in seq]
        w = len(rows[0])
        if all(len(r) == w for r in rows):
            return ndarray._from_cells([norm_cell(c) for r in rows for c in r], (len(rows), w), DT_OBJECT)
    return ndarray._from_cells([norm_cell(c) for c in seq], (len(seq),), DT_OBJECT)


def _size_str_dtype(d, cells):
    if d.kind == 'U' and _str_width(d) == 0:
        n = 1
        for c in cells:
            w = cell_strlen(cast_cell(c, d))
            if w > n:
                n = w
        return str_dtype(n)
    return d
