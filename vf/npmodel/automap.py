"""Contract model of the `automap` extension: an insertion-ordered mapping from unique hashable keys
to consecutive ints starting at 0.  ValueError on a duplicate key (automap README); AutoMap can grow
with add/update.  Lookup is a linear scan with `==`, so symbolic labels stay symbolic."""
from .cells import ModelGap, num_eq, is_symbolic


def _check_hashable(k):
    if isinstance(k, (list, dict, set, bytearray)):
        raise TypeError(f"unhashable type: '{type(k).__name__}'")
    if hasattr(k, '_buf') and hasattr(k, '_shape'):
        raise TypeError("unhashable type: 'numpy.ndarray'")
    if isinstance(k, slice):
        raise TypeError("unhashable type: 'slice'")
    if isinstance(k, tuple):
        for x in k:
            _check_hashable(x)


def _same(a, b):
    # dict semantics: identity or equality
    if a is b:
        return True
    if isinstance(a, float) or isinstance(b, float):
        if isinstance(a, (int, float)) and isinstance(b, (int, float)):
            return num_eq(a, b)
    r = a == b
    if r is NotImplemented:
        return False
    return r


class FrozenAutoMap:
    __slots__ = ('_keys',)

    def __init__(self, keys=()):
        self._keys = []
        for k in keys:
            self._add(k)

    def _add(self, k):
        _check_hashable(k)
        for e in self._keys:
            if _same(e, k):
                raise ValueError(k)
        self._keys.append(k)

    def __len__(self):
        return len(self._keys)

    def __iter__(self):
        return iter(list(self._keys))

    def __reversed__(self):
        return reversed(list(self._keys))

    def __contains__(self, key):
        _check_hashable(key)
        for e in self._keys:
            if _same(e, key):
                return True
        return False

    def __getitem__(self, key):
        _check_hashable(key)
        for i, e in enumerate(self._keys):
            if _same(e, key):
                return i
        raise KeyError(key)

    def get(self, key, default=None):
        _check_hashable(key)
        for i, e in enumerate(self._keys):
            if _same(e, key):
                return i
        return default

    def keys(self):
        return list(self._keys)

    def values(self):
        return list(range(len(self._keys)))

    def items(self):
        return list(zip(self._keys, range(len(self._keys))))

    def __eq__(self, other):
        if isinstance(other, FrozenAutoMap):
            return self._keys == other._keys
        return NotImplemented

    def __hash__(self):
        raise ModelGap('hash(FrozenAutoMap)')

    def __or__(self, other):
        new = type(self)(self._keys)
        for k in other:
            new._add(k)
        return new

    def __repr__(self):
        return f'{type(self).__name__}({self._keys!r})'

    def __getstate__(self):
        return list(self._keys)

    def __setstate__(self, state):
        self._keys = list(state)

    def __reduce__(self):
        return (type(self), (list(self._keys),))

    def __sizeof__(self):
        return 64


class AutoMap(FrozenAutoMap):
    __slots__ = ()

    def add(self, key):
        self._add(key)

    def update(self, keys):
        # automap.update is NOT atomic: keys before a duplicate stay added (mirrors the C code)
        for k in keys:
            self._add(k)

    def __ior__(self, other):
        self.update(other)
        return self
