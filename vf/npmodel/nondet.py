"""Nondeterminism tape: answers for what NumPy / the OS scheduler do not promise.

A harness installs a tape (list of symbolic Booleans/ints) before running the code under analysis;
every choice consumes one entry.  Exhausting the tape is a ModelGap (inconclusive), never a guess."""
from .cells import ModelGap

_TAPE = None
_POS = 0
LOG = []


def install(tape):
    global _TAPE, _POS
    _TAPE = list(tape) if tape is not None else None
    _POS = 0
    del LOG[:]


def choose_bool(why=''):
    global _POS
    if _TAPE is None:
        return False  # deterministic default: behave like the stable answer
    if _POS >= len(_TAPE):
        raise ModelGap('nondeterminism tape exhausted: ' + why)
    v = _TAPE[_POS]
    _POS += 1
    LOG.append(why)
    return bool(v)


def choose_int(n, why=''):
    """An int in range(n), built from ceil(log2 n) tape Booleans (reduced modulo n)."""
    if _TAPE is None or n <= 1:
        return 0
    bits = 0
    m = 1
    while m < n:
        m *= 2
        bits += 1
    v = 0
    for _ in range(bits):
        v = v * 2 + (1 if choose_bool(why) else 0)
    return v % n
