"""Contract model of concurrent.futures.{Thread,Process}PoolExecutor (bound in place of both while
static_frame is imported in the model world).

Encoded contract (library reference, concurrent.futures):
  * Executor.map(fn, *iterables, chunksize): "the iterables are collected immediately rather than
    lazily"; "returns an iterator equivalent to map(fn, *iterables)"; results come back in
    SUBMISSION order; "if a fn call raises an exception, then that exception will be raised when its
    value is retrieved from the iterator".
  * submit(fn, *args) schedules the call and returns a Future; Future.result() returns the value or
    re-raises the call's exception.
  * as_completed(fs) "returns an iterator over the Future instances given by fs that yields futures as they
    complete"; wait(fs) returns (done, not_done) sets once all have completed (return_when=ALL_COMPLETED).
    The yield order of as_completed is the COMPLETION order, i.e. the tape-chosen permutation (futures that had
    already completed come first).
  * nothing is promised about WHEN or in WHICH ORDER the calls run: the model runs the submitted calls
    in an order chosen by the nondeterminism tape (symbolic), before any result is handed out, and
    records that order in EXECUTION_LOG.
"""
from . import nondet

EXECUTION_LOG = []


class Future:
    def __init__(self, fn, args, kwargs):
        self._fn, self._args, self._kwargs = fn, args, kwargs
        self._done = False
        self._value = None
        self._exc = None

    def _run(self):
        if self._done:
            return
        try:
            self._value = self._fn(*self._args, **self._kwargs)
        except Exception as e:  # noqa: BLE001
            self._exc = e
        self._done = True

    def result(self, timeout=None):
        self._run()
        if self._exc is not None:
            raise self._exc
        return self._value

    def done(self):
        return self._done

    def exception(self, timeout=None):
        self._run()
        return self._exc


def _run_in_tape_order(futures, tag):
    """Run all pending futures; the completion order is a tape-chosen permutation."""
    pending = [i for i, f in enumerate(futures) if not f._done]
    while pending:
        k = nondet.choose_int(len(pending), 'executor completion order') if len(pending) > 1 else 0
        i = pending.pop(k)
        EXECUTION_LOG.append((tag, i))
        futures[i]._run()


def as_completed(fs, timeout=None):
    futures = list(dict.fromkeys(fs))
    order = [f for f in futures if f._done]
    pending = [f for f in futures if not f._done]
    while pending:
        k = nondet.choose_int(len(pending), 'as_completed completion order') if len(pending) > 1 else 0
        f = pending.pop(k)
        EXECUTION_LOG.append(('as_completed', futures.index(f)))
        f._run()
        order.append(f)
    return iter(order)


ALL_COMPLETED, FIRST_COMPLETED, FIRST_EXCEPTION = 'ALL_COMPLETED', 'FIRST_COMPLETED', 'FIRST_EXCEPTION'


def wait(fs, timeout=None, return_when=ALL_COMPLETED):
    futures = list(fs)
    _run_in_tape_order(futures, 'wait')
    return set(futures), set()


class ExecutorModel:
    def __init__(self, max_workers=None, **kw):
        if max_workers is not None and max_workers <= 0:
            raise ValueError('max_workers must be greater than 0')
        self._max_workers = max_workers
        self._futures = []
        self._shutdown = False

    def __enter__(self):
        return self

    def __exit__(self, *a):
        self.shutdown()
        return False

    def shutdown(self, wait=True, **kw):
        # with wait=True (the with-statement form) all pending calls have completed on return
        _run_in_tape_order(self._futures, 'shutdown')
        self._shutdown = True

    def submit(self, fn, /, *args, **kwargs):
        if self._shutdown:
            raise RuntimeError('cannot schedule new futures after shutdown')
        f = Future(fn, args, kwargs)
        self._futures.append(f)
        return f

    def map(self, fn, *iterables, timeout=None, chunksize=1):
        if chunksize < 1:
            raise ValueError('chunksize must be >= 1.')
        futures = [self.submit(fn, *args) for args in zip(*iterables)]   # collected immediately

        def results():
            _run_in_tape_order(futures, 'map')
            for f in futures:
                yield f.result()
        return results()


ThreadPoolExecutor = ExecutorModel
ProcessPoolExecutor = ExecutorModel
