"""Cell domain of the NumPy contract model.

Cells are ordinary Python values: int (possibly CrossHair SymbolicInt), bool, str, None, tuples,
arbitrary objects (object arrays), concrete Python floats, concrete numpy datetime64/timedelta64
scalars, and three sentinels:

  NAN    - the real float NaN object (bound as np.nan).  No symbolic floats exist in this model
           (DESIGN 2.5); the model never lets a symbolic int meet a float in `==`/`<` (is_nan guards).
  POISON - content of ``np.empty`` for non-object dtypes and the result of casts NumPy documents as
           undefined (NaN -> int).  Never equal to anything, so it shows up in any observation.
"""
import numpy as _np  # the real NumPy; this module is imported before any sys.modules swap


class ModelGap(BaseException):
    """Raised when the code under analysis asks the model for something it does not encode.
    BaseException so that no ``except Exception`` in the analysed code can swallow it; the runner
    classifies a query that ends this way as inconclusive (never pass, never violation)."""


class _PoisonType:
    __slots__ = ()
    _inst = None

    def __new__(cls):
        if cls._inst is None:
            cls._inst = object.__new__(cls)
        return cls._inst

    def __eq__(self, other): return False
    def __ne__(self, other): return True
    def __lt__(self, other): return False
    def __le__(self, other): return False
    def __gt__(self, other): return False
    def __ge__(self, other): return False
    def __hash__(self): return 0xDEAD
    def __bool__(self): return False
    def __repr__(self): return 'POISON'
    def __reduce__(self): return (_PoisonType, ())
    def __deepcopy__(self, memo): return self
    def __copy__(self): return self

    def _absorb(self, *a): return self
    __add__ = __radd__ = __sub__ = __rsub__ = __mul__ = __rmul__ = _absorb
    __truediv__ = __rtruediv__ = __floordiv__ = __rfloordiv__ = _absorb
    __mod__ = __rmod__ = __pow__ = __rpow__ = __neg__ = __pos__ = __abs__ = _absorb
    __and__ = __rand__ = __or__ = __ror__ = __xor__ = __rxor__ = __invert__ = _absorb


# NaN is the one real float NaN object (as `np.nan` is in NumPy): `v is np.nan`, isinstance(v, float),
# type(v) in INEXACT_TYPES all behave as in the real library.  All floats in this model are concrete.
class BoolScalar:
    """np.bool_ as returned by whole-array any()/all(): static-frame relies on `~x` being LOGICAL not
    and on `x.any()` existing, neither of which a Python (or symbolic) bool offers.  Wraps a possibly
    symbolic truth value; unwrapped again whenever it is stored in an array."""
    __slots__ = ('v',)

    # isinstance() falls back on __class__: present this wrapper as np.bool_ (as the real element is),
    # so `isinstance(x, BOOL_TYPES)` holds and `isinstance(x, int)` does not.
    __class__ = _np.bool_

    def __init__(self, v):
        self.v = v.v if type(v) is BoolScalar else v

    def __bool__(self):
        return bool(self.v)

    def any(self, *a, **kw):
        return self

    def all(self, *a, **kw):
        return self

    def __invert__(self):
        return BoolScalar(self.v == False)  # noqa: E712

    def _o(self, o):
        return o.v if type(o) is BoolScalar else o

    def __and__(self, o): return BoolScalar(self.v & self._o(o))
    def __or__(self, o): return BoolScalar(self.v | self._o(o))
    def __xor__(self, o): return BoolScalar(self.v ^ self._o(o))
    __rand__, __ror__, __rxor__ = __and__, __or__, __xor__

    def __eq__(self, o): return self.v == self._o(o)
    def __ne__(self, o): return self.v != self._o(o)
    def __hash__(self): return hash(bool(self.v))
    def __int__(self): return int(self.v)
    def __index__(self): return int(self.v)
    def __repr__(self): return 'np.True_' if self.v else 'np.False_'
    def __str__(self): return 'True' if self.v else 'False'
    def __format__(self, spec): return format(str(self), spec)
    dtype = _np.dtype(bool)


NAN = float('nan')
POISON = _PoisonType()

_REAL_FLOAT = (float, _np.floating)
_REAL_INT = (_np.integer,)


def is_nan(v):
    """True iff cell v is a NaN.  Never forks: floats are always concrete in this model."""
    if v is NAN:
        return True
    if isinstance(v, float):
        return v != v
    return False


def norm_cell(v):
    """Normalise concrete real-NumPy scalars to model cells (np.int64 -> int, nan -> NAN ...)."""
    if v is NAN or v is POISON or v is None:
        return v
    if isinstance(v, bool):
        return v
    if type(v) is BoolScalar:
        return v.v
    if isinstance(v, _np.generic):
        if isinstance(v, _np.bool_):
            return bool(v)
        if isinstance(v, _np.integer):
            return int(v)
        if isinstance(v, _np.floating):
            return NAN if v != v else _float_to_cell(float(v))
        if isinstance(v, _np.str_):
            return str(v)
        return v  # datetime64, timedelta64, complex ... kept concrete
    if isinstance(v, float):
        return NAN if v != v else _float_to_cell(v)
    return v


def _float_to_cell(f):
    # integral concrete floats are kept as floats (they compare equal to the int); nothing to do
    return f


def cell_kind(v):
    """Classification used by dtype inference. Returns one of b i f U S O M m c."""
    if v is NAN:
        return 'f'
    if v is POISON:
        return 'O'
    if isinstance(v, bool):
        return 'b'
    if isinstance(v, int):
        return 'i'
    if isinstance(v, float):
        return 'f'
    if isinstance(v, str):
        return 'U'
    if isinstance(v, bytes):
        return 'S'
    if isinstance(v, complex):
        return 'c'
    if isinstance(v, _np.datetime64):
        return 'M'
    if isinstance(v, _np.timedelta64):
        return 'm'
    if isinstance(v, _np.generic):
        return v.dtype.kind
    return 'O'


def is_symbolic(v):
    return hasattr(v, '__ch_realize__')


def num_eq(a, b):
    """a == b without ever handing z3 a float: a concrete float meeting a symbolic int is compared
    through its exact integer value (or is unequal when it has a fractional part / is NaN / inf)."""
    if isinstance(a, float) and is_symbolic(b):
        a, b = b, a
    if isinstance(b, float) and is_symbolic(a):
        if b != b or b in (float('inf'), float('-inf')) or b != int(b):
            return False
        return a == int(b)
    return a == b


def num_lt(a, b):
    """a < b, same rule."""
    import math
    if isinstance(b, float) and is_symbolic(a):
        if b != b:
            return False
        if b == float('inf'):
            return True
        if b == float('-inf'):
            return False
        return a < math.ceil(b)
    if isinstance(a, float) and is_symbolic(b):
        if a != a:
            return False
        if a == float('inf'):
            return False
        if a == float('-inf'):
            return True
        return math.floor(a) < b
    return a < b


# ---------------------------------------------------------------------------------------------
# Concrete fast path.  CrossHair traces every Python operation the model performs, which costs three
# orders of magnitude even when nothing symbolic is involved.  When ALL operands of a model operation
# are concrete (array buffers carry a conservative "may hold symbolic cells" flag), the operation is
# executed outside the tracer: same code, same result, no symbolic reasoning to lose.

try:  # optional: the model also runs where CrossHair is not installed
    from crosshair.tracers import NoTracing as _NoTracing, is_tracing as _is_tracing
except Exception:  # noqa: BLE001
    _NoTracing = None

    def _is_tracing():
        return False

FAST = {'depth': 0, 'hits': 0, 'misses': 0}
_SCALARS = frozenset((int, bool, float, str, bytes, type(None), complex, type(Ellipsis)))


class Buf(list):
    """Cell buffer of an array (shared by its views).  `sym` is True when a cell MAY be symbolic."""
    __slots__ = ('sym',)


def conc(x):
    """True only if x certainly holds no symbolic value (conservative)."""
    c = x.__class__
    if c in _SCALARS:
        return True
    if c is slice:
        return conc(x.start) and conc(x.stop) and conc(x.step)
    if c is tuple or c is list:
        for y in x:
            if not conc(y):
                return False
        return True
    b = getattr(x, '_buf', None)
    if b is not None and b.__class__ is Buf:
        return not b.sym
    if c is BoolScalar:
        return conc(x.v)
    if isinstance(x, (_np.dtype, type, _np.generic)):
        return True
    return False


def fast(fn):
    """Run fn outside the tracer when every argument is concrete."""
    if _NoTracing is None:
        return fn

    def wrapper(*a, **kw):
        if FAST['depth'] == 0 and _is_tracing():
            ok = True
            for x in a:
                if not conc(x):
                    ok = False
                    break
            if ok:
                for x in kw.values():
                    if not conc(x):
                        ok = False
                        break
            if ok:
                FAST['depth'] += 1
                try:
                    with _NoTracing():
                        return fn(*a, **kw)
                finally:
                    FAST['depth'] -= 1
        return fn(*a, **kw)
    wrapper.__name__ = getattr(fn, '__name__', 'fast')
    wrapper.__doc__ = getattr(fn, '__doc__', None)
    wrapper.__wrapped__ = fn
    return wrapper


def in_fast_path():
    return FAST['depth'] > 0 or not _is_tracing()
