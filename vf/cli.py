import argparse
import os
import sys

sys.path.insert(0, os.path.dirname(os.path.dirname(os.path.abspath(__file__))))
from vf import runner  # noqa: E402

ap = argparse.ArgumentParser()
ap.add_argument('prop')
ap.add_argument('--tier', default=os.environ.get('VERIF_TIER', 'quick'))
ap.add_argument('--replay')
ap.add_argument('--only')
ap.add_argument('--jobs', type=int)
a = ap.parse_args()
seed = int(os.environ.get('VERIF_SEED', '0') or 0)
sys.exit(runner.main(a.prop, a.tier, seed, a.replay, a.only, a.jobs))
