"""Block layouts: compositions of m columns into 1-D and 2-D blocks."""


def compositions(m):
    """All layouts of m columns: tuples of (ndim, width); width-1 blocks in both 1-D and 2-D form."""
    if m == 0:
        return [()]
    out = []
    for w in range(1, m + 1):
        for rest in compositions(m - w):
            out.append(((2, w),) + rest)
            if w == 1:
                out.append(((1, 1),) + rest)
    return out


def name(layout):
    return ''.join((f'{w}' if nd == 2 else 'v') for nd, w in layout) or 'empty'


def build_blocks(env, columns, dtype, layout, writeable=False):
    """columns: list of column cell-lists (all same length), one dtype for all; returns list of arrays."""
    blocks = []
    j = 0
    nrows = len(columns[0]) if columns else 0
    for nd, w in layout:
        cols = columns[j:j + w]
        j += w
        if nd == 1:
            blocks.append(env.array(list(cols[0]), dtype, writeable))
        else:
            rows = [[cols[k][i] for k in range(w)] for i in range(nrows)]
            if nrows == 0:
                raise ValueError('0-row 2-D block not supported by the factory')
            blocks.append(env.array(rows, dtype, writeable))
    assert j == len(columns)
    return blocks


def build_blocks_typed(env, columns, dtypes, layout, writeable=False):
    """Like build_blocks but with a dtype per column; a 2-D block must span equal dtypes."""
    blocks = []
    j = 0
    nrows = len(columns[0]) if columns else 0
    for nd, w in layout:
        cols = columns[j:j + w]
        dts = dtypes[j:j + w]
        assert all(d == dts[0] for d in dts), 'layout spans different dtypes'
        j += w
        if nd == 1:
            blocks.append(env.array(list(cols[0]), dts[0], writeable))
        else:
            rows = [[cols[k][i] for k in range(w)] for i in range(nrows)]
            blocks.append(env.array(rows, dts[0], writeable))
    return blocks
