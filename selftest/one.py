"""Run one repo unit test in the model world with a full traceback: one.py <module> <test name>"""
import sys, os, importlib, traceback
sys.path.insert(0, os.path.dirname(os.path.dirname(os.path.abspath(__file__))))
from vf import world
model = '--real' not in sys.argv
world.load(model)
from vf import npmodel
real = sys.modules['numpy']
if model:
    sys.modules['numpy'] = npmodel
mod = importlib.import_module('static_frame.test.unit.' + sys.argv[1])
sys.modules['numpy'] = real
t = mod.TestUnit(sys.argv[2])
t.setUp()
getattr(t, sys.argv[2])()
print('PASS')
