"""Run static-frame's own unit tests with the NumPy/automap contract models bound in place of the
real libraries (both in static_frame and in the test module), and compare with the real-world result.

This is the translator validation the guidance asks for ("push the repo's own test inputs through
both the real function and the encoding"): a test that passes on real NumPy must either pass on the
model or stop with ModelGap; a test that passes on real NumPy and FAILS on the model is a model bug.
usage: repo_tests_in_model.py <test module, e.g. static_frame.test.unit.test_util> [-k substr] [-v]
"""
import sys, os, json, unittest, importlib, subprocess, traceback
sys.path.insert(0, os.path.dirname(os.path.dirname(os.path.abspath(__file__))))


# tests that hand arrays to other C libraries (they crash or are meaningless on model arrays)
SKIP_WORDS = ('pandas', 'arrow', 'xarray', 'hdf5', 'sqlite', 'xlsx', 'msgpack', 'parquet', 'pickle',
        'to_html', 'display', 'interface', 'memory')


def run(modname, model, substr=None):
    from vf import world
    sf = world.load(model)
    if model:
        from vf import npmodel
        from vf.npmodel import ModelGap
        real = sys.modules['numpy']
        sys.modules['numpy'] = npmodel
        try:
            mod = importlib.import_module(modname)
            tu = sys.modules.get('static_frame.test.test_case')
        finally:
            sys.modules['numpy'] = real
    else:
        class ModelGap(BaseException):
            pass
        mod = importlib.import_module(modname)
    res = {}
    suite = unittest.defaultTestLoader.loadTestsFromModule(mod)

    def walk(s):
        for t in s:
            if isinstance(t, unittest.TestSuite):
                yield from walk(t)
            else:
                yield t
    for t in walk(suite):
        name = t.id().split('.')[-1]
        if substr and substr not in name:
            continue
        if any(w in name for w in SKIP_WORDS):
            res[name] = 'skip'
            continue
        meth = getattr(t, t._testMethodName)
        try:
            t.setUp()
            meth()
            res[name] = 'pass'
        except ModelGap as e:
            res[name] = 'gap: ' + str(e)[:80]
        except unittest.SkipTest:
            res[name] = 'skip'
        except BaseException as e:
            tb = traceback.extract_tb(e.__traceback__)
            where = ''
            for fr in reversed(tb):
                where = f'{os.path.basename(fr.filename)}:{fr.lineno}'
                if 'npmodel' in fr.filename or 'static_frame/core' in fr.filename:
                    break
            res[name] = f'fail: {type(e).__name__}: {str(e)[:100]} @ {where}'
    return res


if __name__ == '__main__':
    modname = sys.argv[1]
    substr = None
    if '-k' in sys.argv:
        substr = sys.argv[sys.argv.index('-k') + 1]
    if '--child' in sys.argv:
        model = sys.argv[sys.argv.index('--child') + 1] == 'model'
        print('@@' + json.dumps(run(modname, model, substr)))
        sys.exit(0)
    out = {}
    for w in ('real', 'model'):
        p = subprocess.run([sys.executable, __file__, modname, '--child', w] + (['-k', substr] if substr else []),
                capture_output=True, text=True, cwd='/tmp')
        line = [l for l in p.stdout.splitlines() if l.startswith('@@')]
        if not line:
            print(p.stdout[-2000:], p.stderr[-3000:])
            sys.exit(2)
        out[w] = json.loads(line[0][2:])
    real, model = out['real'], out['model']
    cats = {'agree_pass': [], 'gap': [], 'model_fails': [], 'real_fails': []}
    for name, r in sorted(real.items()):
        m = model.get(name, 'missing')
        if r != 'pass':
            cats['real_fails'].append(name)
        elif m == 'pass':
            cats['agree_pass'].append(name)
        elif m.startswith('gap'):
            cats['gap'].append((name, m))
        else:
            cats['model_fails'].append((name, m))
    print(modname, {k: len(v) for k, v in cats.items()})
    if '-v' in sys.argv:
        for name, m in cats['gap']:
            print('  GAP ', name, m)
    for name, m in cats['model_fails']:
        print('  MODEL-FAIL', name, m)
    if '--json' in sys.argv:
        print('@@' + json.dumps({k: len(v) for k, v in cats.items()}))
