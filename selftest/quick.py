"""Start-up self tests run by every check (seconds): stubs vs the real libraries."""
import os, sys
sys.path.insert(0, os.path.dirname(os.path.dirname(os.path.abspath(__file__))))


def automap_vs_model():
    import automap
    from vf.npmodel import automap as M
    import random
    rng = random.Random(1)
    n = 0
    pool = [0, 1, 2, 3, 'a', 'b', (1, 2), (1, 'a'), None, 2.5, True]
    for _ in range(300):
        keys = [rng.choice(pool) for _ in range(rng.randint(0, 5))]
        outs = []
        for mod in (automap, M):
            try:
                m = mod.FrozenAutoMap(keys)
                o = ('ok', len(m), list(m), [m.get(k) for k in pool], [k in m for k in pool])
            except ValueError:
                o = ('ValueError',)
            outs.append(o)
        assert outs[0] == outs[1], (keys, outs)
        # grow-only form: add / update, including a failing update (not atomic in either)
        outs = []
        for mod in (automap, M):
            try:
                m = mod.AutoMap(keys[:2])
            except ValueError:
                outs.append('ValueError')
                continue
            try:
                m.update(keys[2:])
                r = 'ok'
            except ValueError:
                r = 'ValueError'
            outs.append((r, list(m)))
        assert outs[0] == outs[1], (keys, outs)
        n += 1
    return n


def run_all():
    from selftest import slice_ref
    return dict(slice_cases=slice_ref.main(), automap_cases=automap_vs_model())


if __name__ == '__main__':
    print(run_all())
