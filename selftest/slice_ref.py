"""Validate the slice reference (vf.refmodels.ref_slice_positions), the model's py_slice_indices /
slice_positions and SymList against CPython's own list slicing on a grid."""
import os, sys
sys.path.insert(0, os.path.dirname(os.path.dirname(os.path.abspath(__file__))))
from vf.refmodels import ref_slice_positions
from vf.npmodel.array import slice_positions
from vf.world import SymList


def main():
    vals = [None] + list(range(-9, 10))
    steps = [None] + [s for s in range(-4, 5) if s]
    n_cases = 0
    for n in range(0, 7):
        base = list(range(n))
        for a in vals:
            for b in vals:
                for c in steps:
                    k = slice(a, b, c)
                    want = base[k]
                    assert ref_slice_positions(k, n) == want, ('ref', n, k, ref_slice_positions(k, n), want)
                    assert slice_positions(k, n)[0] == want, ('model', n, k)
                    assert SymList(base)[k] == want, ('symlist', n, k)
                    n_cases += 1
    return n_cases


if __name__ == '__main__':
    print('slice reference, model and SymList agree with CPython on', main(), 'cases')
