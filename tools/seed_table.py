#!/usr/bin/env python3
"""Build seeded/RESULTS.json and the markdown table of DESIGN.md section 9 from the seed-round logs.
usage: tools/seed_table.py <log> [<log> ...]   (logs in chronological order; later results override earlier ones)"""
import json, os, re, sys
V = os.path.dirname(os.path.dirname(os.path.abspath(__file__)))
FIRST_CAUGHT = {'C08a', 'C08b', 'C02b', 'C13a', 'C13b', 'C17a', 'C17b', 'C18a', 'C01d', 'C09d', 'C13d', 'C12d'}
NOT_RUN_FIRST = {'C14c', 'C14d'}     # the strengthening was written from the seed's description before the older check was run on it
res = {}
for path in sys.argv[1:]:
    txt = open(path).read()
    for blk in txt.split('=== ')[1:]:
        lines = blk.strip().split('\n')
        sid = lines[0].split()[0]
        ex = [l for l in lines if l.startswith('check exit')]
        conds = [l.strip().split('cond=')[1] for l in lines if 'cond=' in l]
        if not ex:
            continue
        code = int(ex[0].split(':')[1])
        res[sid] = dict(exit=code, conds=conds[:3])
out = {}
for sid in sorted(os.listdir(os.path.join(V, 'seeded'))):
    if not os.path.isfile(os.path.join(V, 'seeded', sid, 'meta.json')):
        continue
    m = json.load(open(os.path.join(V, 'seeded', sid, 'meta.json')))
    r = res.get(sid, {})
    out[sid] = dict(property=m['property'], files=[os.path.basename(f) for f in m.get('files', [])], summary=m['summary'],
                    first_exposure=('not run' if sid in NOT_RUN_FIRST else ('caught' if sid in FIRST_CAUGHT else 'missed')),
                    final_exit=r.get('exit'), caught_by=r.get('conds', []))
json.dump(out, open(os.path.join(V, 'seeded', 'RESULTS.json'), 'w'), indent=1)
print('| seed | changed | first exposure | now (quick check of its property) | caught by |')
print('|---|---|---|---|---|')
for sid, r in out.items():
    now = {1: 'VIOLATION', 0: '**missed**', 2: 'harness error', None: 'not run'}[r['final_exit']]
    print(f"| {sid} | {', '.join(r['files'])} | {r['first_exposure']} | {now} | {', '.join('`' + c + '`' for c in r['caught_by'][:2])} |")
n = len(out)
print(f"\n{sum(1 for r in out.values() if r['final_exit'] == 1)} of {n} seeded changes are reported as violations by the quick check of their own property; "
      f"{sum(1 for r in out.values() if r['first_exposure'] == 'caught')} of {sum(1 for r in out.values() if r['first_exposure'] != 'not run')} were caught by the check as it stood when the change first arrived.")
