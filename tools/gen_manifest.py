#!/usr/bin/env python3
"""Regenerate MANIFEST.json from tools/manifest_src.py (keeps it valid and in one place)."""
import json, os, sys
here = os.path.dirname(os.path.dirname(os.path.abspath(__file__)))
sys.path.insert(0, os.path.join(here, 'tools'))
import manifest_src as M
checks = []
for pid, d in M.CHECKS.items():
    checks.append(dict(
        property_id=pid,
        quick_cmd=f'./check {pid} --tier quick',
        thorough_cmd=f'./check {pid} --tier thorough',
        evidence_file=f'/verif/evidence/{pid}.json',
        replay_cmd_template=f'./check {pid} --replay {{path}}',
        engine='E1-crosshair-on-real-code-over-numpy-model',
        level_claimed=dict(category='model_checking', text=d['text'], design_ref=d.get('design_ref', 'DESIGN.md section 5 ' + pid)),
        level_note=d['note'],
        technique=d.get('technique', 'symbolic execution of the real static-frame functions (CrossHair + z3) over a NumPy contract model; bounded; counterexamples replayed on real NumPy'),
    ))
man = dict(
    version=1,
    setup_cmd='sh ./setup.sh',
    hooks=dict(guard='STATIC_FRAME_VERIF', enable='none needed: checks rebind numpy/automap from outside while importing /repo (vf/world.py); no source hooks',
        baseline_off_cmd='cd /repo && /venv/bin/python -m pytest -ra -q -p no:cacheprovider --timeout=900 --continue-on-collection-errors',
        source_commits=[], add_only=True),
    engines=[dict(name='E1-crosshair-on-real-code-over-numpy-model', path='vf/', serves_properties=sorted(M.CHECKS),
        kind_free_text='CrossHair 0.0.110 (z3) symbolic execution of /repo functions with numpy/automap bound to vf/npmodel; per-condition processes; replay on real NumPy'),
        dict(name='E3-ast-to-z3-second-opinion', path='vf/e3.py', serves_properties=['C04', 'C08'],
        kind_free_text='Python AST of three loop-free integer kernels (slice_to_ascending_slice, TypeBlocks._cols_to_slice, slice_to_inclusive_slice) read from /repo at run time and interpreted into z3 Int terms; unbounded integers, step fixed per query; z3 API and /usr/bin/z3 4.8.12 must agree; counterexamples replayed on the real function; runs as extra queries of the C04 / C08 checks')],
    checks=checks,
    notes=M.NOTES,
    not_applicable=[dict(property_id=k, reason=v) for k, v in M.NOT_APPLICABLE.items()],
)
json.dump(man, open(os.path.join(here, 'MANIFEST.json'), 'w'), indent=1)
try:
    import jsonschema
except ImportError:
    sys.exit(0)
jsonschema.validate(man, json.load(open('/root/.vp/MANIFEST.schema.json')))
print('MANIFEST.json written:', len(checks), 'checks,', len(M.NOT_APPLICABLE), 'not applicable')
