#!/usr/bin/env python3
"""Run the pinned test suite in a repo dir (one pytest process per test file, in parallel) and
compare with BASELINE.json stable_pass.
usage: baseline_cmp.py <repo_dir> [jobs]
exit 0 iff every stable_pass test passed (prints the ones that did not)."""
import json, subprocess, sys, tempfile, os, glob, shutil, xml.etree.ElementTree as ET
from concurrent.futures import ThreadPoolExecutor
repo = os.path.abspath(sys.argv[1] if len(sys.argv) > 1 else '/repo')
jobs = int(sys.argv[2]) if len(sys.argv) > 2 else 12
base = json.load(open('/root/.vp/BASELINE.json'))
stable = set(base['stable_pass'])
files = sorted(glob.glob(os.path.join(repo, 'static_frame/test/**/test_*.py'), recursive=True))
files += sorted(glob.glob(os.path.join(repo, 'doc/**/test_*.py'), recursive=True))
tmp = tempfile.mkdtemp(prefix='basecmp')
env = dict(os.environ); env.pop('STATIC_FRAME_VERIF', None)
env['HYPOTHESIS_STORAGE_DIRECTORY'] = os.path.join(tmp, 'hyp')  # never touch <repo>/.hypothesis
def run(i_f):
    i, f = i_f
    xml = os.path.join(tmp, f'{i}.xml')
    subprocess.run(['/venv/bin/python', '-m', 'pytest', '-q', '-p', 'no:cacheprovider', '--timeout=900',
        '--continue-on-collection-errors', '--junitxml=' + xml, os.path.relpath(f, repo)],
        cwd=repo, env=env, stdout=subprocess.DEVNULL, stderr=subprocess.DEVNULL)
    return xml
with ThreadPoolExecutor(jobs) as ex:
    xmls = list(ex.map(run, enumerate(files)))
passed = set()
for xml in xmls:
    if not os.path.exists(xml):
        continue
    for tc in ET.parse(xml).getroot().iter('testcase'):
        if not any(ch.tag in ('failure', 'error', 'skipped') for ch in tc):
            passed.add((tc.get('classname') or '') + '::' + (tc.get('name') or ''))
shutil.rmtree(tmp)
missing = sorted(stable - passed)
# retry (hypothesis-driven tests are randomly seeded): up to 3 sequential re-runs of each non-passing test
still = []
for m in missing:
    cls, name = m.split('::')
    parts = cls.split('.')
    if parts[-1][:1].isupper():
        node = '/'.join(parts[:-1]) + '.py::' + parts[-1] + '::' + name
    else:
        node = '/'.join(parts) + '.py::' + name
    ok = False
    for _ in range(3):
        r = subprocess.run(['/venv/bin/python', '-m', 'pytest', '-q', '-p', 'no:cacheprovider', '--timeout=900', node],
            cwd=repo, env=env, stdout=subprocess.DEVNULL, stderr=subprocess.DEVNULL)
        if r.returncode == 0:
            ok = True; break
    if not ok:
        still.append(m)
print('retried', len(missing), 'still failing', len(still))
missing = still
print(f'stable_pass={len(stable)} passed_now={len(passed)} stable_not_passing={len(missing)}')
for m in missing:
    print('  NOT PASSING:', m)
sys.exit(1 if missing else 0)
