#!/bin/sh
# run every quick check sequentially, record exit codes and wall time
cd /verif
for p in C01 C02 C03 C04 C05 C06 C07 C08 C09 C10 C11 C12 C13 C14 C15 C17 C18 C19 C20; do
  t0=$(date +%s)
  ./check $p --tier quick > /tmp/quick_$p.log 2>&1
  rc=$?
  t1=$(date +%s)
  echo "$p rc=$rc wall=$((t1-t0))s $(grep 'tier=quick' /tmp/quick_$p.log | cut -c1-200)"
done
