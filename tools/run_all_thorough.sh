#!/bin/sh
# run every thorough check sequentially (used through `vp run --with-repo`, or directly)
cd "$(dirname "$0")/.." || exit 2
[ -n "$VP_RUN_REPO" ] && export VERIF_REPO="$VP_RUN_REPO"
for p in ${THOROUGH_PROPS:-C06 C09 C12 C17 C18 C19 C20 C02 C10 C07 C05 C13 C15 C11 C14 C03 C01 C04 C08}; do
  t0=$(date +%s)
  ./check $p --tier thorough ${VERIF_JOBS:+--jobs $VERIF_JOBS} > thorough_$p.log 2>&1
  rc=$?
  t1=$(date +%s)
  echo "$p rc=$rc wall=$((t1-t0))s $(grep 'tier=thorough' thorough_$p.log | cut -c1-220)"
  grep -E "^  (inconclusive|counterexample)|HARNESS-ERROR" thorough_$p.log | cut -c1-200 | head -12
done
