#!/usr/bin/env python3
"""Debug helper: run one condition body concretely.  usage: tools/run_cond.py <prop> <cond> '<json args>' [--real]
Prints observed / expected and, when both are lists of equal length, the positions where they differ."""
import json, os, sys
sys.path.insert(0, os.path.dirname(os.path.dirname(os.path.abspath(__file__))))
from vf import rt
model = '--real' not in sys.argv
got, exp = rt.run_pair(sys.argv[1], sys.argv[2], json.loads(sys.argv[3]), model)
def diff(a, b, path=()):
    if isinstance(a, list) and isinstance(b, list) and len(a) == len(b):
        for i, (x, y) in enumerate(zip(a, b)):
            diff(x, y, path + (i,))
    elif a != b or type(a) != type(b):
        print('DIFF at', path, ':', repr(a)[:300], '!=', repr(b)[:300])
diff(got, exp)
if '-v' in sys.argv:
    print('got', got); print('exp', exp)
