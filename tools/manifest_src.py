NOTES = ('All checks: ./check <id> --tier quick|thorough. Exit 0 = held on everything explored (KNOWN-FINDING lines allowed), '
         '1 = unlisted reproduced violation (VIOLATION line), 2 = harness/self-validation error (no verdict). '
         'Every query is decided by CrossHair/z3 over the real code imported from /repo at run time (numpy/automap/concurrent.futures bound '
         'to contract models); inconclusive queries are listed in the evidence and never counted as held. Genuine defects found on the '
         'original tree were repaired by "fix:" commits in /repo or recorded in known_findings.json (see DESIGN.md section 6).')

_T = ('symbolic execution of the real static-frame functions (CrossHair + z3) over NumPy/automap contract models; bounded; '
      'every counterexample replayed on the unmodified library with real NumPy')

_N = ('NumPy, automap (and concurrent.futures where used) are replaced by the contract models in vf/npmodel, validated against the real '
      'libraries by start-up self-tests, by per-condition trace validation and by running the repo\'s own unit tests on the model; '
      'cells range over Z u {NaN} (|v| <= 2**53), no IEEE rounding / int64 wrap-around; outside: ')

CHECKS = {
 'C01': dict(text='Bounded symbolic check of immutability: arrays of every result of ~37 Frame operations are read-only and the source snapshot and flags are unchanged (also when the call raises); containers built from caller arrays with symbolic writeable flags / view status are unaffected by later caller writes; deepcopy / copy / pickle round trips keep content and read-only status.',
             note=_N + 'freeze sites not reachable from the listed operations; sequences of calls are covered as one arbitrary call from a constructed state plus snapshot invariance.'),
 'C02': dict(text='Bounded symbolic check of the label<->position bijection: for all (int, |v|<=2**53) label values of 3-4 labels and a probe, constructor rejects duplicates, loc_to_iloc(l_i)==i, membership, len, iteration, reversed, values, positions agree with the list; grow-only histories (append/extend, caches materialised in between, float-equal-to-position label); derived indices (drop, roll, sort, iloc, set algebra); depth-2 hierarchies (tree check, grow then derive).',
             note=_N + 'datetime-typed indices, string/mixed labels, hierarchy depth > 2, sizes > 4.'),
 'C03': dict(text='Differential check inside the solver: the same symbolic cells packed into block layout L and into the canonical layout give identical results (shape, per-column dtype kind, every cell, raised error class) and match a list reference for 10 TypeBlocks operations; Frame constructor rejects label counts that do not match the blocks.',
             note=_N + 'Frame-level methods not listed, dtype kinds other than int64, shapes beyond 2x3 (quick).'),
 'C04': dict(text='Bounded symbolic check of selection: for every int / slice (start, stop any int with |v|<=2**53 or None; step fixed per query, |step|<=3) / 3-entry list / Boolean mask key on 2-3 x 4 frames in several block layouts the result equals Python list indexing (cells, labels paired with cells, result kind, IndexError/KeyError exactly when out of range/absent); label slices include the stop; Boolean Series keys align by label; bloc selection; auto-index slice-then-loc.',
             note=_N + 'datetime indices, hierarchical indices (C05), Bus/Quilt selection, |step| > 3 (quick).'),
 'C05': dict(text='Bounded symbolic check of hierarchical selection on concrete ragged trees (depth 2 and 3): per-level selectors (label / 2-label list in either order / label slice / all / innermost Boolean mask) with symbolic contents select exactly the matching positions in the specified order through IndexHierarchy.loc_to_iloc and Series/Frame.loc; all views of the hierarchy describe the same tuples.',
             note=_N + 'outer-depth Boolean masks, selectors matching nothing, inner label slices on ragged trees, datetime levels, depth 4.'),
 'C06': dict(text='Bounded symbolic check of label alignment: Series/Frame binary operators (+, -, <, ==, scalar and reflected forms, Frame with Series) with symbolic right-operand labels (overlap / disjoint / permuted) and symbolic cells give the union of labels, op(a,b) where both have the label and the missing marker elsewhere, independent of operand order; equal indices keep order and dtype.',
             note=_N + 'float arithmetic, *, /, **, matmul, string dtypes, hierarchical labels.'),
 'C07': dict(text='Bounded symbolic check of dtype resolution and merging sites: the real resolve_dtype over every ordered pair of a 25-dtype universe (pair chosen by symbolic indices) holds both inputs, is symmetric and idempotent; resolve_dtype_iter is fold-order independent; at 9 merging sites x 5 array dtypes a supplied element of symbolic kind (bool/int/big int/NaN/None/str/tuple) is read back with the same value and type and untouched columns keep their dtype.',
             note=_N + 'str<->bytes mixing, structured dtypes, datetime units beyond D/s/Y.'),
 'C08': dict(text='Bounded symbolic check of functional updates: mask / assign / drop / astype with symbolic slice (any start/stop, fixed step), list and Boolean keys over several block layouts equal the list reference (exactly the addressed cells), assigned labelled Series aligns by label whatever the key order, bloc assignment with differently blocked value frames, Series assign/drop/mask, relabel/rename/insert; the original snapshot is unchanged.',
             note=_N + 'clip/apply forms, hierarchical labels, shapes beyond 2x4 (quick).'),
 'C09': dict(text='Bounded symbolic check of grow-only histories: for every choice of new / duplicate / in-call duplicate labels in 1-2 growth calls (setitem, extend(Frame|Series), extend_items) accepted calls only append, rejected calls leave the full snapshot and label/data coherence unchanged, and containers derived earlier (to_frame, to_frame_go, selection, constructor, static->go) never change; IndexGO / IndexHierarchyGO extend.',
             note=_N + 'histories longer than 2 calls (quick), growth racing with iteration.'),
 'C10': dict(text='Bounded symbolic check of equals/hash: for every value of the symbolic cells (ints or NaN), labels and option flags, TypeBlocks/Series/Frame.equals equals the cell-wise reference, is symmetric and (on triples) transitive; compare_name/compare_dtype/compare_class add exactly their conjunct; FrameHE ==/!= are plain bools consistent with equals and equal frames hash equal.',
             note=_N + 'Bus.equals, string/datetime cells, shapes beyond 2x2 / 1x3.'),
 'C11': dict(text='Bounded symbolic check of concatenation/overlay: Frame.from_concat on both axes (union/intersection) over block-compatible and incompatible layouts with symbolic aligned-axis labels, cells and fill value places every input cell once at its own labels and the fill elsewhere; duplicate concatenated labels are rejected unless a replacement index is given; from_concat_items builds two-level labels; Series.from_concat; from_overlay takes the first non-missing value per cell.',
             note=_N + 'more than 2 inputs (quick), hierarchical input labels, generator inputs beyond consumed-once.'),
 'C12': dict(text='Bounded symbolic check of sorting: sort_values (1-2 keys), sort_index, sort_columns, key functions and depth-2 hierarchical labels with symbolic keys (ties possible) keep (label,row) associations, order the keys, are stable and reverse exactly when descending; the NumPy model answers non-stable sort kinds with any valid tie arrangement (symbolic tape).',
             note=_N + 'NaN/string keys, more than 4 rows, 3 key columns.'),
 'C13': dict(text='Bounded symbolic check of grouping and windows: groups (Series, Frame both axes, sort-and-slice and unique/mask paths, label-depth grouping) with symbolic keys in 0..2 partition the container with constant keys and kept order; windows equal the reference for symbolic window_sized / label_shift / start_shift / size_increment with size and step fixed per query.',
             note=_N + 'object/mixed-type keys, more than 4 rows, window parameters beyond the stated ranges.'),
 'C14': dict(text='Bounded symbolic check of missing-value operations: one solver Boolean per cell decides whether it is missing, so every missing pattern of the shape is covered; directional fills (both axes, limit 0..2, fills crossing block boundaries), sided fills, isna/notna/dropna/fillna (element and label-aligned container)/count equal a per-line Python reference and never alter a non-missing cell.',
             note=_N + 'NaT/datetime and string columns, shapes beyond 2x4 / 3x2 (quick).'),
 'C15': dict(text='Bounded symbolic check of axis reductions: sum/min/max/all/any/cumsum/loc_min/loc_max over symbolic cells with symbolic missing flags equal the independent per-column/per-row computation for every block layout tried and both skipna settings; mean/median/std/var are checked as uninterpreted reductions (same cells, order, variant).',
             note=_N + 'floating-point values of mean/median/std/var, prod over symbolic cells, string/datetime columns, 0-sized axes.'),
 'C17': dict(text='Bounded symbolic check of Bus laziness and LRU bound over an in-memory store stub: for every access history (symbolic positions, int/list/loc/drop accesses, max_persist None/1/2/3, per-label store configs) the returned Frame is the stored one, the loaded set equals a reference LRU, the bound holds and only necessary labels are read with their own config; Store mtime coherence for arbitrary file-system answers.',
             note=_N + 'ON-DISK FAITHFULNESS OF THE zip/SQLite/XLSX/HDF5 ENCODINGS IS NOT CHECKED (I/O and C libraries): only laziness, LRU bound, derived-Bus behaviour and stale-file detection are decided.'),
 'C18': dict(text='Bounded symbolic check of parallel == sequential: apply_pool (values and items forms) and Batch with max_workers over an executor contract model whose task completion order is a symbolic permutation: results equal the sequential form and the label->f(value) reference for every order, chunksize and worker count; a failing task raises out of the result / is dropped by apply_except without shifting labels.',
             note=_N + 'real OS scheduling and process pools, zip store read/write pools; decided modulo the documented concurrent.futures contract.'),
 'C19': dict(text='Bounded symbolic check of Quilt and Batch: Quilt.iloc with symbolic int / slice / list keys on the Quilt axis and symbolic opposite-axis keys (both axes, retain_labels on/off) equals the same selection on the list concatenation of the member frames; shape, labels, to_frame, iteration; Batch chained operations pair every label with the result for that label.',
             note=_N + 'Quilt windows/export, stores behind the Bus, more than 2 member frames (quick).'),
 'C20': dict(text='Bounded symbolic check of relational reshaping: joins (inner/left/right/outer) with symbolic key values (1:1, 1:n, n:m, no match) equal the nested-loop reference; pivot (sum) equals the dict-of-rows group-aggregate; set_index/unset_index, relabel_shift_in/out and pivot_stack/unstack round trips restore every cell.',
             note=_N + 'function maps, multi-field columns beyond 2, join templates, joins on label depths.'),
}
for _d in CHECKS.values():
    _d['technique'] = _T

NOT_APPLICABLE = {
 'C16': 'round trip is decided by csv/genfromtxt/pickle C code: CrossHair realises every symbolic string there, so a run would enumerate concrete files rather than give a solver verdict over text; a string-theory model of RFC 4180 would model the csv module, not this code base (DESIGN.md section 7)',
}
