NOTES = ('All checks: ./check <id> --tier quick|thorough. Exit 0 = held on everything explored (KNOWN-FINDING lines allowed), '
         '1 = unlisted reproduced violation (VIOLATION line), 2 = harness/self-validation error (no verdict). '
         'Every query is decided by CrossHair/z3 over the real code imported from /repo at run time; inconclusive queries are '
         'listed in the evidence and never counted as held.')

_NA_PENDING = 'check not built yet in this session (see DESIGN.md section 5 for the plan); not claimed'

CHECKS = {
 'C10': dict(
   text='Bounded symbolic check: for every value of the symbolic cells (unbounded ints or NaN), labels and option flags, '
        'TypeBlocks/Series/Frame.equals equals the cell-wise reference, is symmetric and (on triples) transitive; compare_name/'
        'compare_dtype/compare_class add exactly their conjunct; FrameHE ==/!= are plain bools consistent with equals and equal '
        'frames hash equal. Bounds: 1x2 and 2x2 shapes, listed block layouts.',
   note='NumPy/automap replaced by contract models (vf/npmodel) validated against the real libraries; hash() operands are made '
        'concrete by bounded case split; Bus.equals, string/datetime cells outside.'),
}

NOT_APPLICABLE = {
 'C16': 'round trip is decided by csv/genfromtxt/pickle C code: CrossHair realises every symbolic string there, so a run would enumerate concrete files rather than give a solver verdict (DESIGN.md section 7)',
}
for _p in ['C01','C02','C03','C04','C05','C06','C07','C08','C09','C11','C12','C13','C14','C15','C17','C18','C19','C20']:
    if _p not in CHECKS:
        NOT_APPLICABLE[_p] = _NA_PENDING
