#!/bin/sh
# usage: tools/seed_round.sh <out log> [seed ids...]   (default: every directory under seeded/)
# Applies every seeded change in turn to a scratch worktree of /repo (never to /repo itself), confirms the demo,
# runs the property's full quick check against that worktree, and reverts.  The worktree is removed at the end.
out=$1; shift
V=$(cd "$(dirname "$0")/.." && pwd)
WT=/tmp/seedwt_$$
git -C /repo worktree add --detach -f "$WT" HEAD >/dev/null 2>&1 || exit 2
ids="$*"; [ -z "$ids" ] && ids=$(ls "$V/seeded")
: > "$out"
for x in $ids; do
  d="$V/seeded/$x"; p=$(python3 -c "import json;print(json.load(open('$d/meta.json'))['property'])")
  echo "=== $x ($p)" >> "$out"
  ( cd "$WT" && git checkout -q -- . && git apply --check "$d/patch.diff" ) || { echo "PATCH DOES NOT APPLY" >> "$out"; continue; }
  (cd /tmp && PYTHONPATH="$WT" /venv/bin/python "$d/demo.py" >/dev/null 2>&1); echo "demo clean: $?" >> "$out"
  ( cd "$WT" && git apply "$d/patch.diff" )
  (cd /tmp && PYTHONPATH="$WT" /venv/bin/python "$d/demo.py" >/dev/null 2>&1); echo "demo patched: $?" >> "$out"
  ( cd "$V" && VERIF_REPO="$WT" VERIF_WORK=/tmp/seedwork_$$ ./check "$p" > /tmp/seedcheck_$$.out 2>&1; echo "check exit: $?" >> "$out"
    grep -A1 "^VIOLATION" /tmp/seedcheck_$$.out | grep "cond=" | awk '{print $1}' | sort | uniq -c | sort -rn | head -5 >> "$out"
    grep "tier=" /tmp/seedcheck_$$.out >> "$out" )
  ( cd "$WT" && git checkout -q -- . )
done
git -C /repo worktree remove --force "$WT"; rm -rf /tmp/seedwork_$$ /tmp/seedcheck_$$.out
echo DONE >> "$out"
