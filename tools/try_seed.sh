#!/bin/sh
# usage: tools/try_seed.sh <seed dir> <property> [check args...]
# Applies the seeded patch to /repo, confirms the demo fails, runs the check, reverts.
d=$1; prop=$2; shift 2
cd /repo || exit 2
git diff --quiet || { echo "/repo not clean"; exit 2; }
git apply --check "$d/patch.diff" || { echo "PATCH DOES NOT APPLY"; exit 3; }
(cd /tmp && PYTHONPATH=/repo /venv/bin/python "$d/demo.py" >/tmp/demo_clean.out 2>&1); echo "demo on clean tree: exit $?"
git apply "$d/patch.diff"
(cd /tmp && PYTHONPATH=/repo /venv/bin/python "$d/demo.py" >/tmp/demo_patched.out 2>&1); echo "demo on patched tree: exit $? ($(tail -1 /tmp/demo_patched.out | cut -c1-150))"
cd /verif && ./check "$prop" "$@" > /tmp/seed_check.out 2>&1; rc=$?
echo "check exit: $rc"; grep -c "^VIOLATION" /tmp/seed_check.out; grep -A1 "^VIOLATION" /tmp/seed_check.out | head -4 | cut -c1-300; grep "tier=" /tmp/seed_check.out
cd /repo && git checkout -- . && git diff --quiet && echo reverted
